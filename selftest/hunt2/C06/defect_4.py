"""C06 (second sentence): insert r times then remove r times at the knot which ends the domain of an unclamped curve.

Degree-2 curve on the uniform unclamped knot vector [0..6]: the domain is [2, 4] and the simple knot 4 can be inserted
once more (multiplicity 1 < degree; operations.insert_knot accepts it).  The insertion must keep the shape and the
removal must give back the original knot vector and control points.
"""
import sys
from geomdl import BSpline, operations

c = BSpline.Curve(normalize_kv=False)
c.degree = 2
c.ctrlpts = [[0.0, 0.0], [1.0, 2.0], [3.0, 3.0], [5.0, 0.0]]
c.knotvector = [0.0, 1.0, 2.0, 3.0, 4.0, 5.0, 6.0]
P0 = [list(p) for p in c.ctrlpts]
U0 = list(c.knotvector)
ts = [2.0, 2.5, 3.0, 3.25, 3.9, 4.0]
ev0 = [c.evaluate_single(t) for t in ts]

operations.insert_knot(c, [4.0], [1])
ev1 = [c.evaluate_single(t) for t in ts]
dev1 = max(abs(a - b) for p, q in zip(ev0, ev1) for a, b in zip(p, q))
kv1 = list(c.knotvector)
operations.remove_knot(c, [4.0], [1])
ev2 = [c.evaluate_single(t) for t in ts]
dev2 = max(abs(a - b) for p, q in zip(ev0, ev2) for a, b in zip(p, q))
devp = max(abs(a - b) for p, q in zip(P0, c.ctrlpts) for a, b in zip(p, q)) if len(c.ctrlpts) == len(P0) else float('inf')
if dev1 > 1e-9 or dev2 > 1e-9 or devp > 1e-9 or list(c.knotvector) != U0:
    print("DEFECT: insert(4.0) -> kv %s, shape deviation %g; remove(4.0) -> kv %s ctrlpts %s, shape deviation %g"
          % (kv1, dev1, list(c.knotvector), c.ctrlpts, dev2))
    sys.exit(1)
print("ok")
sys.exit(0)
