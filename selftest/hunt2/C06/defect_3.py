"""C06: knot removal on a knot vector whose knots are closer than 1e-7 (small parametric range, normalize_kv=False).

The control points of a B-spline do not depend on an affine rescaling of its knot vector.  A cubic curve gets the knot
0.48 inserted (next to the existing knot 0.4); the same control points on the knot vector multiplied by 1e-6 describe the
same shape on the domain [0, 1e-6].  Removing the inserted knot must give back the original control points on both
scales.  On the small scale find_multiplicity (absolute tolerance 10e-8) counts the neighbour 4e-7 as a copy of
4.8e-7, the removal runs with multiplicity 2 and silently returns wrong control points.
"""
import sys
from geomdl import BSpline, operations

P = [[0.0, 0.0], [1.0, 2.0], [3.0, 3.0], [5.0, 0.0], [6.0, 1.0]]
U = [0.0, 0.0, 0.0, 0.0, 0.4, 1.0, 1.0, 1.0, 1.0]

ref = BSpline.Curve(normalize_kv=False)
ref.degree = 3
ref.ctrlpts = [list(p) for p in P]
ref.knotvector = list(U)
operations.insert_knot(ref, [0.48], [1])
P_ins = [list(p) for p in ref.ctrlpts]
U_ins = list(ref.knotvector)

worst = 0.0
for scale in (1.0, 1e-3, 1e-6):
    c = BSpline.Curve(normalize_kv=False)
    c.degree = 3
    c.ctrlpts = [list(p) for p in P_ins]
    c.knotvector = [k * scale for k in U_ins]
    try:
        operations.remove_knot(c, [0.48 * scale], [1])
    except Exception as e:
        print("DEFECT: remove_knot raised %r for the knot vector scaled by %g" % (e, scale))
        sys.exit(1)
    if list(c.knotvector) != [k * scale for k in U] or len(c.ctrlpts) != len(P):
        print("DEFECT: scale %g: knot vector / size after removal: %s, %d ctrlpts" % (scale, c.knotvector, len(c.ctrlpts)))
        sys.exit(1)
    dev = max(abs(a - b) for p, q in zip(P, c.ctrlpts) for a, b in zip(p, q))
    if dev > 1e-9:
        print("DEFECT: knot vector scaled by %g: insert+remove does not restore the control points (max deviation %g): %s"
              % (scale, dev, c.ctrlpts))
        sys.exit(1)
print("ok")
sys.exit(0)
