"""A control point array whose length is not size_u * size_v (* size_w) is accepted (too long) or destroys the shape
(too short): the views of the rational surface become mutually inconsistent and its weights are silently replaced."""
import sys
from geomdl import NURBS


def make():
    s = NURBS.Surface()
    s.degree_u = s.degree_v = 1
    s.ctrlpts_size_u, s.ctrlpts_size_v = 2, 3
    s.ctrlpts = [[i, j, 0] for i in range(2) for j in range(3)]
    s.weights = [1, 2, 3, 4, 5, 6]
    s.knotvector_u = [0, 0, 1, 1]
    s.knotvector_v = [0, 0, 0.5, 1, 1]
    return s


problems = []
# one point too many
s = make()
try:
    s.ctrlpts = [[0, 0, 0]] * 7
    n2d = sum(len(r) for r in s.ctrlpts2d)
    if not (len(s.ctrlpts) == len(s.weights) == len(s.ctrlptsw) == n2d == s.ctrlpts_size):
        problems.append("7 points accepted for a 2x3 surface: len(ctrlpts)=%d len(weights)=%d ctrlpts2d=%d ctrlpts_size=%d, "
                        "weights now %r" % (len(s.ctrlpts), len(s.weights), n2d, s.ctrlpts_size, s.weights))
except (ValueError, Exception) as e:
    if len(s.ctrlptsw) != 6 or list(s.weights) != [1.0, 2.0, 3.0, 4.0, 5.0, 6.0]:
        problems.append("rejected 7 points but the shape was modified")
# one point too few
s = make()
try:
    s.ctrlpts = [[0, 0, 0]] * 5
    problems.append("5 points accepted for a 2x3 surface")
except Exception as e:
    if len(s.ctrlptsw) != 6 or list(s.weights) != [1.0, 2.0, 3.0, 4.0, 5.0, 6.0]:
        problems.append("5 points rejected with %s but the surface is left with %d control points, weights %r, "
                        "ctrlpts2d %r" % (type(e).__name__, len(s.ctrlptsw), list(s.weights), s.ctrlpts2d))
if problems:
    print("DEFECT: " + " | ".join(problems))
    sys.exit(1)
sys.exit(0)
