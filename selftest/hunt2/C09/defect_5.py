"""CPGen.GridWeighted empties / refills the list it handed out: a weighted grid kept by the caller is emptied in place when
the weights change (and then silently becomes the grid of the new weights); the weight view is [] while the grid already
carries unit weights."""
import sys, copy
from geomdl import CPGen

problems = []
g = CPGen.GridWeighted(4, 4)
g.generate(2, 2)
if list(g.weight) != [1.0] * 9:
    problems.append("weight view before the first grid read is %r although grid[0][0] is %r" % (g.weight, g.grid[0][0]))
kept = g.grid                      # unit weights, kept by the caller
snapshot = copy.deepcopy(kept)
g.weight = 2.0
if kept != snapshot:
    problems.append("grid kept by the caller changed from %d rows to %d rows after g.weight = 2.0" % (len(snapshot), len(kept)))
new = g.grid
if kept != snapshot:
    problems.append("after reading g.grid again the kept unit-weight grid holds w=%r" % (kept[0][0][-1] if kept else None))
if problems:
    print("DEFECT: " + " | ".join(problems))
    sys.exit(1)
sys.exit(0)
