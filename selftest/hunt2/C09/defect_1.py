"""convert.bspline_to_nurbs() accepts a shape which is already rational (NURBS.* are subclasses of BSpline.*) and silently
returns a shape whose weights are all reset to 1.0, i.e. a different curve / surface / volume."""
import sys, math
from geomdl import NURBS, convert

w = math.sqrt(2) / 2
problems = []

# quarter circle
c = NURBS.Curve()
c.degree = 2
c.ctrlpts = [[1, 0], [1, 1], [0, 1]]
c.weights = [1, w, 1]
c.knotvector = [0, 0, 0, 1, 1, 1]
try:
    n = convert.bspline_to_nurbs(c)
    p, q = c.evaluate_single(0.5), n.evaluate_single(0.5)
    if list(n.weights) != list(c.weights) or max(abs(a - b) for a, b in zip(p, q)) > 1e-12:
        problems.append("curve: weights %r -> %r, C(0.5) %r -> %r" % (c.weights, n.weights, p, q))
except TypeError:
    pass  # rejecting a rational input (as the docstring announces) is fine as well

# quarter cylinder
s = NURBS.Surface()
s.degree_u, s.degree_v = 1, 2
s.ctrlpts_size_u, s.ctrlpts_size_v = 2, 3
s.ctrlpts = [[1, 0, 0], [1, 1, 0], [0, 1, 0], [1, 0, 1], [1, 1, 1], [0, 1, 1]]
s.weights = [1, w, 1, 1, w, 1]
s.knotvector_u = [0, 0, 1, 1]
s.knotvector_v = [0, 0, 0, 1, 1, 1]
try:
    n = convert.bspline_to_nurbs(s)
    p, q = s.evaluate_single((0.5, 0.5)), n.evaluate_single((0.5, 0.5))
    if list(n.weights) != list(s.weights) or max(abs(a - b) for a, b in zip(p, q)) > 1e-12:
        problems.append("surface: S(.5,.5) %r -> %r" % (p, q))
except TypeError:
    pass

# volume
v = NURBS.Volume()
v.degree_u, v.degree_v, v.degree_w = 1, 2, 1
v.ctrlpts_size_u, v.ctrlpts_size_v, v.ctrlpts_size_w = 2, 3, 2
# index = v + size_v * (u + size_u * w)
pts, wts = [], []
for kw in range(2):
    for ku in range(2):
        for kv, (x, y, ww) in enumerate([(1, 0, 1), (1, 1, w), (0, 1, 1)]):
            r = 1 + ku
            pts.append([r * x, r * y, kw])
            wts.append(ww)
v.ctrlpts = pts
v.weights = wts
v.knotvector_u = [0, 0, 1, 1]
v.knotvector_v = [0, 0, 0, 1, 1, 1]
v.knotvector_w = [0, 0, 1, 1]
try:
    n = convert.bspline_to_nurbs(v)
    p, q = v.evaluate_single((0.5, 0.5, 0.5)), n.evaluate_single((0.5, 0.5, 0.5))
    if list(n.weights) != list(v.weights) or max(abs(a - b) for a, b in zip(p, q)) > 1e-12:
        problems.append("volume: V(.5,.5,.5) %r -> %r" % (p, q))
except TypeError:
    pass

if problems:
    print("DEFECT: bspline_to_nurbs(rational shape) silently resets the weights: " + " | ".join(problems))
    sys.exit(1)
sys.exit(0)
