"""convert.bspline_to_nurbs / nurbs_to_bspline drop the trim curves (and the evaluation delta) of the input shape:
the converted shape is not the same (trimmed) shape and its evalpts / tessellation differ from the input's."""
import sys
from geomdl import BSpline, convert

b = BSpline.Surface()
b.degree_u = b.degree_v = 1
b.set_ctrlpts([[0, 0, 0], [0, 1, 0], [1, 0, 0], [1, 1, 0]], 2, 2)
b.knotvector_u = [0, 0, 1, 1]
b.knotvector_v = [0, 0, 1, 1]
t = BSpline.Curve()
t.degree = 1
t.ctrlpts = [[.25, .25], [.75, .25], [.75, .75], [.25, .75], [.25, .25]]
t.knotvector = [0, 0, .25, .5, .75, 1, 1]
b.add_trim(t)
b.sample_size = 9

nb = convert.bspline_to_nurbs(b)      # unit weights: must be the same shape
bb = convert.nurbs_to_bspline(nb)     # and back

problems = []
if len(nb.trims) != len(b.trims) or len(bb.trims) != len(b.trims):
    problems.append("trims %d -> %d -> %d" % (len(b.trims), len(nb.trims), len(bb.trims)))
if len(nb.evalpts) != len(b.evalpts) or len(bb.evalpts) != len(b.evalpts):
    problems.append("evalpts %d -> %d -> %d (delta %r -> %r)" % (len(b.evalpts), len(nb.evalpts), len(bb.evalpts),
                                                                  b.delta, nb.delta))
nb.sample_size = 9
b.tessellate()
nb.tessellate()
if len(nb.faces) != len(b.faces):
    problems.append("faces at the same sample size %d -> %d" % (len(b.faces), len(nb.faces)))
if problems:
    print("DEFECT: converted shape differs from the input: " + "; ".join(problems))
    sys.exit(1)
sys.exit(0)
