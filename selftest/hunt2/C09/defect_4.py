"""The usage example in the NURBS.Surface class documentation ("weights vector will be 1 by default") passes unweighted
3-D points to set_ctrlpts(), which takes them as (x*w, y*w, w): the documented example ends in ZeroDivisionError."""
import sys, re, textwrap
from geomdl import NURBS

doc = NURBS.Surface.__doc__
m = re.search(r"\.\. code-block:: python\n\s*:linenos:\n(.*?)\n\s*\*\*Keyword Arguments", doc, re.S)
code = textwrap.dedent(m.group(1))
ns = {}
try:
    exec(code, ns)
    surf = ns['surf']
    ok = surf.dimension == 3 and all(w == 1.0 for w in surf.weights) and len(ns['surface_points']) > 0
    msg = "dimension %d, weights %r" % (surf.dimension, surf.weights)
except Exception as e:
    ok = False
    msg = "%s: %s" % (type(e).__name__, e)
if not ok:
    print("DEFECT: documented NURBS.Surface example does not give a 3-D surface with unit weights: " + msg)
    sys.exit(1)
sys.exit(0)
