"""construct.construct_surface / construct_volume take 'rational' from the FIRST argument only: with a non-rational first
shape the weights of the following rational shapes are silently dropped (their unweighted points are used as if the weights
were 1), with the opposite order the same input raises."""
import sys, math
from geomdl import NURBS, BSpline, construct

w = math.sqrt(2) / 2
arc = NURBS.Curve()
arc.degree = 2
arc.ctrlpts = [[1, 0, 0], [1, 1, 0], [0, 1, 0]]
arc.weights = [1, w, 1]
arc.knotvector = [0, 0, 0, 1, 1, 1]
par = BSpline.Curve()
par.degree = 2
par.ctrlpts = [[1, 0, 1], [1, 1, 1], [0, 1, 1]]
par.knotvector = [0, 0, 0, 1, 1, 1]

problems = []
for d in ('u', 'v'):
    try:
        s = construct.construct_surface(d, par, arc, degree=1)
    except Exception:
        continue  # refusing the mixed input is consistent with the opposite order
    p = s.evaluate_single((1, 0.5) if d == 'u' else (0.5, 1))   # must lie on the arc, which is an input section curve
    q = arc.evaluate_single(0.5)
    if max(abs(a - b) for a, b in zip(p, q)) > 1e-9:
        problems.append("construct_surface('%s', BSpline, NURBS): section point %r, arc point %r" % (d, p, q))

if problems:
    print("DEFECT: " + " | ".join(problems))
    sys.exit(1)
sys.exit(0)
