"""C05 defect 2: with the documented ``precision=`` option the refined control points are computed for the
exact mid knots, but the knot vector setter then rounds these knots to ``precision`` decimals -> shape changes."""
import os, sys
from fractions import Fraction as F
sys.path.insert(0, os.path.dirname(os.path.abspath(__file__)))
import ref
from geomdl import BSpline, operations

crv = BSpline.Curve(precision=4)
crv.degree = 3
crv.ctrlpts = [[0, 0], [1, 3], [2, -1], [4, 2], [5, 0], [6, 4]]
crv.knotvector = [0, 0, 0, 0, 0.25, 0.5, 1, 1, 1, 1]     # exactly representable with 4 decimals
U0 = [F(k) for k in crv.knotvector]
P0 = ref.tofr(crv.ctrlpts)
operations.refine_knotvector(crv, [3])                      # mid knots 1/32, 3/32, ... need 5 decimals
U1 = [F(k) for k in crv.knotvector]
P1 = ref.tofr(crv.ctrlpts)
worst = F(0)
for i in range(0, 401):
    u = F(i, 400)
    a = ref.curve_pt(3, U0, P0, u)
    b = ref.curve_pt(3, U1, P1, u)
    worst = max(worst, max(abs(x - y) for x, y in zip(a, b)))
if worst > 1e-9:
    print("DEFECT: refine_knotvector on a Curve(precision=4) moved the curve by %g (knots %r ...)"
          % (float(worst), crv.knotvector[4:8]))
    sys.exit(1)
print("ok")
sys.exit(0)
