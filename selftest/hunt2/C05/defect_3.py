"""C05 defect 3 (helper route): helpers.knot_refinement decides 'flat points vs rows of points' with
isinstance(ctrlpts[0][0], float); control points written with integer coordinates raise TypeError."""
import sys
from geomdl import helpers
kv = [0, 0, 0, 0.5, 1, 1, 1]
ref_pts, ref_kv = helpers.knot_refinement(2, kv, [[0.0, 0.0], [1.0, 1.0], [2.0, 0.0], [3.0, 1.0]])
for pts in ([[0, 0], [1, 1], [2, 0], [3, 1]], [[0, 0.5], [1, 1.5], [2, 0.5], [3, 1.0]]):
    try:
        new_pts, new_kv = helpers.knot_refinement(2, kv, pts)
    except TypeError as e:
        print("DEFECT: helpers.knot_refinement with integer coordinates %r raised TypeError: %s" % (pts[0], e))
        sys.exit(1)
    if len(new_pts) != len(ref_pts) or new_kv != ref_kv:
        print("DEFECT: wrong result for integer coordinates")
        sys.exit(1)
print("ok")
sys.exit(0)
