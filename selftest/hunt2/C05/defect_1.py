"""C05 defect 1: knot refinement uses absolute tolerances (1e-7) on knot values, so a shape whose
un-normalised knot vector lives on a small range (here [0, 1e-6]) is silently changed (or refused)."""
import os, sys
from fractions import Fraction as F
sys.path.insert(0, os.path.dirname(os.path.abspath(__file__)))
import ref
from geomdl import BSpline, operations

scale = 1e-6
crv = BSpline.Curve(normalize_kv=False)
crv.degree = 2
crv.ctrlpts = [[0, 0], [1, 3], [2, -1], [4, 2], [5, 0]]
crv.knotvector = [scale * k for k in [0, 0, 0, 0.25, 0.5, 1, 1, 1]]
U0 = [F(k) for k in crv.knotvector]
P0 = ref.tofr(crv.ctrlpts)

try:
    operations.refine_knotvector(crv, [2])
except Exception as e:
    print("DEFECT: refinement of a curve on [0, 1e-6] raised: %s" % e)
    sys.exit(1)

U1 = [F(k) for k in crv.knotvector]
P1 = ref.tofr(crv.ctrlpts)
worst = F(0)
for i in range(0, 201):
    u = U0[0] + (U0[-1] - U0[0]) * F(i, 200)
    a = ref.curve_pt(2, U0, P0, u)
    b = ref.curve_pt(2, U1, P1, u)
    worst = max(worst, max(abs(x - y) for x, y in zip(a, b)))
# expected: 2 + 3 original domain knots -> 13 distinct knots, 11 interior of multiplicity 2 -> 3 + 22 + 3 = 28 knots
if worst > 1e-9 or len(crv.knotvector) != 28:
    print("DEFECT: refine_knotvector(density=2) on knot range [0,1e-6] moved the curve by %g; %d knots instead of 28"
          % (float(worst), len(crv.knotvector)))
    sys.exit(1)
print("ok")
sys.exit(0)
