"""C12 (lower confidence): ctrlpts_size_u / ctrlpts_size_v setters leave the 2-D control grid stale.

Re-interpreting the same control points as a 3 x 2 instead of a 2 x 3 grid (size setters + matching knot
vectors, all public setters) gives the right evalpts, but ctrlpts2d keeps the 2 x 3 layout and
transpose(), which works on ctrlpts2d, fails or would use the wrong grid.
"""
import sys
from geomdl import BSpline

pts = [[float(i), float(i * i), 0.0] for i in range(6)]


def make(nu, nv, kvu, kvv):
    s = BSpline.Surface()
    s.degree_u = 1
    s.degree_v = 1
    s.ctrlpts_size_u = nu
    s.ctrlpts_size_v = nv
    s.ctrlpts = pts
    s.knotvector_u = kvu
    s.knotvector_v = kvv
    s.sample_size = 3
    return s


s = make(2, 3, [0, 0, 1, 1], [0, 0, 0.5, 1, 1])
_ = s.evalpts
s.ctrlpts_size_u = 3
s.ctrlpts_size_v = 2
s.knotvector_u = [0, 0, 0.5, 1, 1]
s.knotvector_v = [0, 0, 1, 1]
f = make(3, 2, [0, 0, 0.5, 1, 1], [0, 0, 1, 1])
assert s.evalpts == f.evalpts and s.ctrlpts == f.ctrlpts
if s.ctrlpts2d != f.ctrlpts2d:
    print("DEFECT: ctrlpts2d is %d x %d after the sizes were set to 3 x 2 (fresh object: %d x %d)"
          % (len(s.ctrlpts2d), len(s.ctrlpts2d[0]), len(f.ctrlpts2d), len(f.ctrlpts2d[0])))
    sys.exit(1)
print("ok")
sys.exit(0)
