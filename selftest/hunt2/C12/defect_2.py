"""C12 (same root cause as defect_1): one tessellation component assigned to two surfaces.

The setter keeps the caller's instance and does not reset it, so the second surface reports the
tessellation of the first one (SurfaceContainer.tessellator creates one component per surface for
this very reason, Surface.tessellator does not).
"""
import sys
from geomdl import BSpline, tessellate


def make(z):
    s = BSpline.Surface()
    s.degree_u = 1
    s.degree_v = 1
    s.set_ctrlpts([[0, 0, z], [0, 1, z], [1, 0, z], [1, 1, z]], 2, 2)
    s.knotvector_u = [0, 0, 1, 1]
    s.knotvector_v = [0, 0, 1, 1]
    s.sample_size = 3
    return s


tsl = tessellate.TrimTessellate()
s1, s2 = make(0.0), make(7.0)
s1.tessellator = tsl
s2.tessellator = tsl
v1 = [v.data for v in s1.vertices]
v2 = [v.data for v in s2.vertices]
f2 = make(7.0)
f2.tessellator = tessellate.TrimTessellate()
exp = [v.data for v in f2.vertices]
if v2 != exp:
    print("DEFECT: second surface reports the tessellation of the first one: z = %s instead of %s"
          % (v2[0][2], exp[0][2]))
    sys.exit(1)
print("ok")
sys.exit(0)
