"""C12 (variant of the recorded container-cache item, but triggered by the library's own edit):
Surface.transpose() swaps the coordinates of the curves inside a CurveContainer trim without resetting the
container, so a trim container whose evalpts were read before (e.g. by a first tessellation) keeps reporting the
un-transposed trim and the tessellation of the transposed surface is cut at the wrong place.
"""
import sys
from geomdl import BSpline, tessellate, multi


def surf():
    s = BSpline.Surface()
    s.degree_u = s.degree_v = 1
    s.set_ctrlpts([[0, 0, 0], [0, 1, 0], [1, 0, 0], [1, 1, 0]], 2, 2)
    s.knotvector_u = [0, 0, 1, 1]
    s.knotvector_v = [0, 0, 1, 1]
    s.sample_size = 11
    s.tessellator = tessellate.TrimTessellate()
    return s


def seg(p, q):
    c = BSpline.Curve()
    c.degree = 1
    c.ctrlpts = [p, q]
    c.knotvector = [0, 0, 1, 1]
    return c


def trim_container(swap=False):
    pts = [[0.1, 0.5], [0.3, 0.5], [0.3, 0.9], [0.1, 0.9]]   # u in [0.1, 0.3], v in [0.5, 0.9]
    if swap:
        pts = [[p[1], p[0]] for p in pts]
    cc = multi.CurveContainer()
    for i in range(4):
        cc.add(seg(pts[i], pts[(i + 1) % 4]))
    cc.delta = 0.1
    cc.opt = ['reversed', 0]
    return cc


s = surf()
s.add_trim(trim_container())
_ = s.faces                      # first tessellation reads (and caches) the evalpts of the trim container
s.transpose()
got = sorted(v.uv for v in s.vertices)
f = surf()
f.add_trim(trim_container(swap=True))
exp = sorted(v.uv for v in f.vertices)
if got != exp or s.trims[0].evalpts[0] != f.trims[0].evalpts[0]:
    print("DEFECT: after transpose() the container trim still reports %s (its curves start at %s); %d vertices vs %d"
          % (s.trims[0].evalpts[0], s.trims[0][0].ctrlpts[0], len(got), len(exp)))
    sys.exit(1)
print("ok")
sys.exit(0)
