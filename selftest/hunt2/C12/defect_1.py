"""C12: Surface.tessellator setter installs a tessellation component without resetting it.

History on ONE surface: tessellate with component A, switch to component B, edit the control points
(only the current component B is reset), switch back to A -> vertices/faces are the ones computed for
the OLD control points, a freshly built surface with the same definition reports the new ones.
"""
import sys
from geomdl import BSpline, tessellate, operations


def make(ctrlpts):
    s = BSpline.Surface()
    s.degree_u = 1
    s.degree_v = 1
    s.set_ctrlpts(ctrlpts, 2, 2)
    s.knotvector_u = [0, 0, 1, 1]
    s.knotvector_v = [0, 0, 1, 1]
    s.sample_size = 3
    return s


old = [[0, 0, 0], [0, 1, 0], [1, 0, 0], [1, 1, 0]]
surf = make(old)
tri = surf.tessellator                      # the default triangular component
_ = surf.vertices                           # read the tessellation (cached in 'tri')
surf.tessellator = tessellate.QuadTessellate()
_ = surf.faces
operations.translate(surf, [10.0, 0.0, 5.0], inplace=True)   # public in-place edit
surf.tessellator = tri                      # back to the triangular component

fresh = make(surf.ctrlpts)
got = [v.data for v in surf.vertices]
exp = [v.data for v in fresh.vertices]
if got != exp:
    print("DEFECT: vertices after tessellator switch are stale: first vertex %s, fresh object reports %s"
          % (got[0], exp[0]))
    sys.exit(1)
print("ok")
sys.exit(0)
