"""C12: Surface.tessellate(**kwargs) returns the cached tessellation even if it was made with other arguments.

A surface whose vertices were read once ignores a later `tessellate(vertex_spacing=2)`; consequently
exchange.export_obj/stl/off(surf, vertex_spacing=2, update_delta=False) write the old, fine mesh while a freshly
built surface with the same definition writes the coarse one.
"""
import sys
from geomdl import BSpline, exchange


def make():
    s = BSpline.Surface()
    s.degree_u = s.degree_v = 1
    s.set_ctrlpts([[0, 0, 0], [0, 1, 0], [1, 0, 1], [1, 1, 0]], 2, 2)
    s.knotvector_u = [0, 0, 1, 1]
    s.knotvector_v = [0, 0, 1, 1]
    s.sample_size = 9
    return s


hist = make()
_ = hist.vertices                      # history: the tessellation has been read once (vertex_spacing = 1)
hist.tessellate(vertex_spacing=2)
fresh = make()
fresh.tessellate(vertex_spacing=2)
n_hist, n_fresh = len(hist.vertices), len(fresh.vertices)

hist2 = make()
_ = hist2.faces
out_hist = exchange.export_off_str(hist2, vertex_spacing=2, update_delta=False)
out_fresh = exchange.export_off_str(make(), vertex_spacing=2, update_delta=False)

if n_hist != n_fresh or out_hist != out_fresh:
    print("DEFECT: tessellate(vertex_spacing=2) after a read of the vertices keeps %d vertices, fresh object has %d; "
          "export_off differs: %s" % (n_hist, n_fresh, out_hist != out_fresh))
    sys.exit(1)
print("ok")
sys.exit(0)
