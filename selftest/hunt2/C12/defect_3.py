"""C12: Surface.trims (and Volume.trims) setter appends to the existing trims instead of setting them.

After `surf.trims = [t2]` the surface still holds the trims set before, so its trims view and its trimmed
tessellation differ from a freshly built surface with trims = [t2]; `surf.trims = surf.trims` doubles the
trims; trimming.fix_trim_curves(), which writes the fixed curves back with `obj.trims = updated_trims`,
leaves every trim twice on the surface.
"""
import sys
from geomdl import BSpline, tessellate, trimming


def surf():
    s = BSpline.Surface()
    s.degree_u = s.degree_v = 1
    s.set_ctrlpts([[0, 0, 0], [0, 1, 0], [1, 0, 0], [1, 1, 0]], 2, 2)
    s.knotvector_u = [0, 0, 1, 1]
    s.knotvector_v = [0, 0, 1, 1]
    s.sample_size = 11
    s.tessellator = tessellate.TrimTessellate()
    return s


def trim(a, b):
    c = BSpline.Curve()
    c.degree = 1
    c.ctrlpts = [[a, a], [b, a], [b, b], [a, b], [a, a]]
    c.knotvector = [0, 0, 0.25, 0.5, 0.75, 1, 1]
    c.delta = 0.05
    return c


msgs = []
s = surf()
s.trims = [trim(0.2, 0.4)]
_ = s.faces
s.trims = [trim(0.6, 0.8)]
f = surf()
f.trims = [trim(0.6, 0.8)]
if len(s.trims) != len(f.trims) or len(s.faces) != len(f.faces):
    msgs.append("trims set twice: %d trims / %d faces, fresh object %d / %d"
                % (len(s.trims), len(s.faces), len(f.trims), len(f.faces)))

s = surf()
s.add_trim(trim(0.2, 0.4))
trimming.fix_trim_curves(s)
if len(s.trims) != 1:
    msgs.append("fix_trim_curves leaves %d trims for 1" % len(s.trims))

if msgs:
    print("DEFECT: trims setter appends instead of setting: " + "; ".join(msgs))
    sys.exit(1)
print("ok")
sys.exit(0)
