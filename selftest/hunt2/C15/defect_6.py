"""A surface whose parametric range is <= 1e-7 in a direction cannot be tessellated (linspace returns one value)."""
import sys
from common import make_surface

msgs = []
for w in (1e-6, 1e-7, 5e-8):
    s = make_surface(kv_v=[0, 0, 0, 0.4 * w, w, w, w], normalize_kv=False)
    s.sample_size = 5
    try:
        verts = s.vertices
        faces = s.faces
    except Exception as e:
        msgs.append("v-range %g: tessellation raises %s (%d evaluated points for a 5 x 5 sampling)"
                    % (w, type(e).__name__, len(s.evalpts)))
        continue
    if len(verts) != 25 or len(faces) != 32:
        msgs.append("v-range %g: %d vertices, %d faces" % (w, len(verts), len(faces)))
if msgs:
    print("DEFECT: " + msgs[0] + " [%d findings]" % len(msgs))
    sys.exit(1)
print("ok")
sys.exit(0)
