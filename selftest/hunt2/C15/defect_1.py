"""Vertex parameters are accumulated (u += u_jump): boundary vertices store parameters outside the domain."""
import sys
from common import make_surface, on_surface
from geomdl import exchange

# (a) stored parameters of the vertices lie in the parametric domain, for every sample size
bad = []
for n in range(2, 61):
    s = make_surface()
    s.sample_size = n
    (u0, u1), (v0, v1) = s.domain
    if any(not (u0 <= v.uv[0] <= u1 and v0 <= v.uv[1] <= v1) for v in s.vertices):
        bad.append(n)
if bad:
    s = make_surface()
    s.sample_size = bad[0]
    print("DEFECT: vertices store parameters outside the domain for %d of 59 sample sizes (first: %d, max u = %r)"
          % (len(bad), bad[0], max(v.uv[0] for v in s.vertices)))
    sys.exit(1)

# (b) consequences: OBJ export with vertex normals, tessellation of a partially evaluated surface
s = make_surface()
s.sample_size = 10
try:
    exchange.export_obj_str(s, vertex_normals=True)
except Exception as e:
    print("DEFECT: export_obj_str(vertex_normals=True) raises %s for sample size 10" % type(e).__name__)
    sys.exit(1)
s = make_surface()
s.sample_size = 10
s.evaluate(start_u=0.2, stop_u=0.7, start_v=0.1, stop_v=0.6)
msg = on_surface(s, s.vertices)
if msg:
    print("DEFECT: after a partial evaluate(): " + msg)
    sys.exit(1)
print("ok")
sys.exit(0)
