"""Surface.tessellator setter keeps the mesh the component already holds: a second surface reports the first one's mesh."""
import sys
from common import make_surface, on_surface
from geomdl import tessellate

# one tessellator instance handed to two surfaces
tsl = tessellate.TriangularTessellate()
s1 = make_surface()
s2 = make_surface(shift=5.0)
s1.sample_size = 4
s2.sample_size = 6
s1.tessellator = tsl
s2.tessellator = tsl
m1 = on_surface(s1, s1.vertices)
n2 = len(s2.vertices)
m2 = on_surface(s2, s2.vertices)
if m1 or m2 or n2 != 36:
    print("DEFECT: shared tessellator: surface 2 (6 x 6 samples) reports %d vertices; %s" % (n2, m1 or m2))
    sys.exit(1)

# a component taken over from a surface which has been tessellated
s3 = make_surface(shift=5.0)
s3.sample_size = 4
s3.tessellator = s1.tessellator
m3 = on_surface(s3, s3.vertices)
if m3:
    print("DEFECT: tessellator taken over from another surface: " + m3)
    sys.exit(1)
print("ok")
sys.exit(0)
