"""vertex_spacing > 1 drops the last rows/columns of the sampling grid (or the whole mesh) instead of coarsening it."""
import sys
from common import make_surface, tri_area_uv
from geomdl import exchange

msgs = []
for n, sp in ((6, 2), (8, 3), (10, 2), (5, 3)):
    s = make_surface()
    s.sample_size = n
    s.tessellate(vertex_spacing=sp)
    uv = [v.uv for v in s.vertices]
    area = sum(tri_area_uv(*[uv[k] for k in f.data]) for f in s.faces)
    umax = max(p[0] for p in uv)
    vmax = max(p[1] for p in uv)
    if abs(area - 1.0) > 1e-9 or abs(umax - 1.0) > 1e-9 or abs(vmax - 1.0) > 1e-9:
        msgs.append("sample size %d, vertex_spacing %d: triangles cover %.4f of the unit parametric square "
                    "(max u = %.4f, max v = %.4f)" % (n, sp, area, umax, vmax))
# documented export option: a surface sampled 2 x 2 exported with vertex_spacing=2 gives an empty file
s = make_surface()
s.sample_size = 2
txt = exchange.export_off_str(s, vertex_spacing=2)
if txt.splitlines()[1].split()[:2] == ["0", "0"]:
    msgs.append("export_off_str(sample size 2, vertex_spacing=2) writes an empty mesh")
if msgs:
    print("DEFECT: " + msgs[0] + " [%d findings]" % len(msgs))
    sys.exit(1)
print("ok")
sys.exit(0)
