"""OBJ / OFF / STL exports of a surface tessellated with QuadTessellate do not describe the quadrilateral mesh."""
import struct
import sys
from common import make_surface, poly_area_uv
from geomdl import exchange, tessellate, multi


def run(obj, surf, label):
    exchange.export_obj_str(obj)  # the export sets the sample size of the surfaces of a container
    nq = len(surf.faces)
    uv = [v.uv for v in surf.vertices]
    (u0, u1), (v0, v1) = surf.domain
    dom_area = (u1 - u0) * (v1 - v0)
    # OBJ
    faces = [[int(x) - 1 for x in l.split()[1:]] for l in exchange.export_obj_str(obj).splitlines() if l.startswith("f ")]
    area = sum(poly_area_uv([uv[k] for k in f]) for f in faces)
    if abs(area - dom_area) > 1e-9:
        return "%s: OBJ faces cover %.4f of the parametric area %.4f (%d faces with %s indices for %d quads)" % (
            label, area, dom_area, len(faces), sorted(set(len(f) for f in faces)), nq)
    # OFF
    lines = exchange.export_off_str(obj).splitlines()
    nv, nf = [int(x) for x in lines[1].split()[:2]]
    faces = [[int(x) for x in l.split()] for l in lines[2 + nv:2 + nv + nf]]
    if any(f[0] != len(f) - 1 for f in faces):
        return "%s: OFF face records with a wrong vertex count" % label
    area = sum(poly_area_uv([uv[k] for k in f[1:]]) for f in faces)
    if abs(area - dom_area) > 1e-9:
        return "%s: OFF faces cover %.4f of the parametric area %.4f" % (label, area, dom_area)
    # ASCII STL: triangles only
    txt = exchange.export_stl_str(obj, binary=False)
    nfac = txt.count("facet normal")
    nver = txt.count("vertex ")
    if nver != 3 * nfac or nfac != 2 * nq:
        return "%s: ASCII STL has %d facets with %d vertices for %d quads (expected %d triangles)" % (
            label, nfac, nver, nq, 2 * nq)
    # binary STL: 84 + 50 * n bytes
    b = exchange.export_stl_str(obj, binary=True)
    n = struct.unpack("<I", b[80:84])[0]
    if len(b) != 84 + 50 * n or n != 2 * nq:
        return "%s: binary STL declares %d facets in %d bytes (84 + 50 n = %d) for %d quads" % (
            label, n, len(b), 84 + 50 * n, nq)
    return None


s = make_surface()
s.sample_size = 4
s.tessellator = tessellate.QuadTessellate()
msg = run(s, s, "surface")
if msg is None:
    s = make_surface()
    c = multi.SurfaceContainer(s)
    c.sample_size = 4
    c.tessellator = tessellate.QuadTessellate()
    msg = run(c, c[0], "container of one surface")
if msg:
    print("DEFECT: " + msg)
    sys.exit(1)
print("ok")
sys.exit(0)
