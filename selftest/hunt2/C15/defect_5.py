"""Surface.trims setter appends to the existing trims instead of setting them (fix_trim_curves doubles the trims)."""
import math
import sys
from common import make_surface, tri_area_uv
from geomdl import BSpline, knotvector, tessellate, trimming


def square(x0, y0, x1, y1):
    c = BSpline.Curve()
    c.degree = 1
    c.ctrlpts = [[x0, y0], [x1, y0], [x1, y1], [x0, y1], [x0, y0]]
    c.knotvector = knotvector.generate(1, 5)
    c.sample_size = 5
    return c


s = make_surface()
s.sample_size = 11
s.tessellator = tessellate.TrimTessellate()
s.trims = [square(0.1, 0.1, 0.3, 0.3)]
s.vertices
s.trims = [square(0.6, 0.6, 0.9, 0.9)]   # "Sets the array of trim curves"
uv = [v.uv for v in s.vertices]
area = sum(tri_area_uv(*[uv[k] for k in f.data]) for f in s.faces)
expected = 1.0 - 0.3 * 0.3
if len(s.trims) != 1 or abs(area - expected) > 1e-6:
    print("DEFECT: after trims = [A]; trims = [B] the surface has %d trims and the mesh covers %.4f "
          "(expected 1 trim, 1 - area(B) = %.4f)" % (len(s.trims), area, expected))
    sys.exit(1)

# fix_trim_curves assigns the repaired trims through the same setter
s = make_surface()
c = BSpline.Curve()
c.degree = 2
c.ctrlpts = [[0.0, 0.4], [0.5, 0.55], [1.0, 0.3]]
c.knotvector = [0, 0, 0, 1, 1, 1]
c.opt = ['reversed', 0]
s.add_trim(c)
trimming.fix_trim_curves(s)
if len(s.trims) != 1:
    print("DEFECT: fix_trim_curves leaves %d trims on the surface (the open curve and its closed replacement)"
          % len(s.trims))
    sys.exit(1)
print("ok")
sys.exit(0)
