"""export_obj(..., vertex_normals=True) cannot compute the vertex normals of a surface evaluated with delta = 0.1 (sample size 10):
the tessellation vertices carry parameters accumulated by repeated addition (u += u_jump), the last row/column ends up
at 1.0000000000000002 > 1 and operations.normal rejects it ("Parameters should be between 0 and 1").
Expected: every vertex carries the parameter it was evaluated at (inside the domain) and gets its unit normal."""
import sys
from geomdl import BSpline, exchange, operations

s = BSpline.Surface()
s.degree_u = 2
s.degree_v = 2
s.set_ctrlpts([[i, j, (i * j) % 3 + 0.3 * i * i - 0.2 * j] for i in range(4) for j in range(4)], 4, 4)
s.knotvector_u = [0, 0, 0, 0.5, 1, 1, 1]
s.knotvector_v = [0, 0, 0, 0.3, 1, 1, 1]
s.delta = 0.1  # sample size 10 (also 12, 19, 21, 22, 26, 36, 37, 40, 41, ...)

s.tessellate()
dom = s.domain
outside = [v.uv for v in s.tessellator.vertices
           if not (dom[0][0] <= v.uv[0] <= dom[0][1] and dom[1][0] <= v.uv[1] <= dom[1][1])]
try:
    txt = exchange.export_obj_str(s, vertex_normals=True)
except Exception as e:
    print("DEFECT: export_obj_str(vertex_normals=True) raised %s: %s; %d tessellation vertices carry parameters outside "
          "the domain, e.g. %r" % (type(e).__name__, e, len(outside), outside[:1]))
    sys.exit(1)
nv = sum(1 for l in txt.splitlines() if l.startswith("v "))
nn = sum(1 for l in txt.splitlines() if l.startswith("vn "))
if outside or nv != nn or nv != 100:
    print("DEFECT: vertex parameters outside the domain: %r (v=%d, vn=%d)" % (outside[:2], nv, nn))
    sys.exit(1)
print("ok")
sys.exit(0)
