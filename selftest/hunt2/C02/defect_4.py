"""Rational shapes: the lists handed out by .ctrlpts / .weights are caches.  An in-place edit (curve.weights[1] = 5.0,
curve.ctrlpts[1][1] = 10.0 - the natural way of changing one weight / one coordinate, and the way which works on the
non-rational classes) is reported back by the object but ignored by derivatives() / tangent(); it becomes effective only
later, when an unrelated setter rebuilds the weighted points from the caches.  So the derivatives returned are not the
derivatives of the shape the object reports (and the same call sequence gives different derivatives)."""
import sys
from geomdl import NURBS, operations

sys.path.insert(0, __file__.rsplit("/", 1)[0])
import ref  # exact reference (fractions)

P = [[0, 0], [1, 2], [3, 1], [4, 0]]
c = NURBS.Curve()
c.degree = 2
c.ctrlpts = P
c.knotvector = [0, 0, 0, 0.5, 1, 1, 1]
c.weights[1] = 5.0                       # change one weight
c.ctrlpts[2][1] = 10.0                   # move one control point

u = 0.25
reported_P, reported_W = [list(p) for p in c.ctrlpts], list(c.weights)
exact = [[float(x) for x in d] for d in ref.curve_ders(2, c.knotvector, reported_P, u, 1, reported_W)]
got = c.derivatives(u, 1)
err = max(abs(a - b) for g, e in zip(got, exact) for a, b in zip(g, e))

c.ctrlpts = [list(p) for p in c.ctrlpts]  # "no-op": set the reported control points again
got2 = c.derivatives(u, 1)
if err > 1e-9 or got2 != got:
    print("DEFECT: object reports ctrlpts=%r weights=%r whose derivatives at %.2f are %r, but derivatives() returns %r "
          "(and %r after re-assigning the same control points)" % (reported_P, reported_W, u, exact, got, got2))
    sys.exit(1)
print("ok")
sys.exit(0)
