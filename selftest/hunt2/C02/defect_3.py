"""operations.derivative_curve / derivative_surface of a rational shape return the INPUT shape itself (only a warning is
emitted): the "hodograph" evaluates to C(u), not C'(u), even when all weights are equal and the hodograph is an ordinary
B-spline.  derivative_surface additionally returns a single surface instead of the documented 3-tuple."""
import sys, warnings
from geomdl import NURBS, operations

c = NURBS.Curve()
c.degree = 2
c.ctrlpts = [[0, 0, 0], [1, 2, 0], [3, 1, 1], [4, 0, 2]]   # all weights are 1.0: the curve is polynomial
c.knotvector = [0, 0, 0, 0.5, 1, 1, 1]
with warnings.catch_warnings():
    warnings.simplefilter("ignore")
    h = operations.derivative_curve(c)
u = 0.25
exact = c.derivatives(u, 1)[1]          # [4.0, 3.0, 1.0]
got = h.evaluate_single(u)              # [1.0, 1.375, 0.125] == C(u)
err = max(abs(a - b) for a, b in zip(exact, got))

s = NURBS.Surface()
s.degree_u = 2
s.degree_v = 2
s.ctrlpts_size_u, s.ctrlpts_size_v = 3, 3
s.ctrlpts = [[i, j, i * j] for i in range(3) for j in range(3)]
s.knotvector_u = [0, 0, 0, 1, 1, 1]
s.knotvector_v = [0, 0, 0, 1, 1, 1]
with warnings.catch_warnings():
    warnings.simplefilter("ignore")
    hs = operations.derivative_surface(s)
if h is c or err > 1e-9 or hs is s:
    print("DEFECT: derivative_curve(rational) is the input curve: is-same-object=%r, hodograph(%.2f)=%r but C'(%.2f)=%r; "
          "derivative_surface(rational) is the input surface: %r" % (h is c, u, got, u, exact, hs is s))
    sys.exit(1)
print("ok")
sys.exit(0)
