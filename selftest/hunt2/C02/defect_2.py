"""The method forms of the tangent / normal queries (BSpline|NURBS Curve.tangent/normal/binormal, Surface.tangent/normal)
are documented ("Evaluates the tangent vector ... :return: tangent vector as a tuple of the origin point and the vector
components") but silently return an empty tuple for every input instead of the values operations.tangent / normal give."""
import sys
from geomdl import BSpline, NURBS, operations

bad = []
for mod in (BSpline, NURBS):
    c = mod.Curve()
    c.degree = 2
    c.ctrlpts = [[0, 0, 0], [1, 2, 0], [3, 1, 1], [4, 0, 2]]
    c.knotvector = [0, 0, 0, 0.5, 1, 1, 1]
    if c.tangent(0.25) != operations.tangent(c, 0.25):
        bad.append("%s.Curve.tangent(0.25) -> %r, operations.tangent -> %r" % (mod.__name__, c.tangent(0.25), operations.tangent(c, 0.25)))

    s = mod.Surface()
    s.degree_u = 2
    s.degree_v = 1
    s.ctrlpts_size_u, s.ctrlpts_size_v = 3, 2
    s.ctrlpts = [[0, 0, 0], [0, 1, 1], [1, 0, 1], [1, 1, 0], [2, 0, 0], [2, 1, 3]]
    s.knotvector_u = [0, 0, 0, 1, 1, 1]
    s.knotvector_v = [0, 0, 1, 1]
    if s.tangent((0.5, 0.5)) != operations.tangent(s, (0.5, 0.5)):
        bad.append("%s.Surface.tangent((.5,.5)) -> %r" % (mod.__name__, s.tangent((0.5, 0.5))))
    if s.normal((0.5, 0.5)) != operations.normal(s, (0.5, 0.5)):
        bad.append("%s.Surface.normal((.5,.5)) -> %r, operations.normal -> %r" % (mod.__name__, s.normal((0.5, 0.5)), operations.normal(s, (0.5, 0.5))))
if bad:
    print("DEFECT: method-form tangent/normal queries return an empty tuple: " + "; ".join(bad[:2]))
    sys.exit(1)
print("ok")
sys.exit(0)
