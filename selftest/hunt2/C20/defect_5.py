# The voxel grid does not have the requested size: linalg.frange() yields the end value a second time when the last
# accumulated value start + i*step is one ulp short of it, so generate_voxel_grid() produces an extra layer of voxels
# which overlaps the last layer almost completely (its lower corner differs by one ulp). voxelize(grid_size=(50, 2, 2))
# of a shape with the bounding box [0,1]^3 returns 51*2*2 voxels; len(grid) != prod(grid_size) also breaks the
# index arithmetic of every consumer of the flat ``filled`` list (save_voxel_grid writes it without the dimensions).
import sys
from geomdl import BSpline, utilities, voxelize, linalg

s = BSpline.Surface()
s.degree_u = s.degree_v = 1
s.set_ctrlpts([[0, 0, 0], [0, 1, 0], [1, 0, 1], [1, 1, 1]], 2, 2)   # bounding box [0,1]^3
s.knotvector_u = s.knotvector_v = utilities.generate_knot_vector(1, 2)
s.sample_size = 8

msgs = []
for gs in ((50, 2, 2), (8, 8, 8), (2, 2, 50)):
    grid, filled = voxelize.voxelize(s, grid_size=gs)
    n = gs[0] * gs[1] * gs[2]
    if len(grid) != n:
        xs = sorted(set(v[0][0] for v in grid)); zs = sorted(set(v[0][2] for v in grid))
        msgs.append("grid_size=%r gives %d voxels instead of %d (layers start at ... %r, %r)"
                    % (gs, len(grid), n, (xs if gs[0] == 50 else zs)[-2], (xs if gs[0] == 50 else zs)[-1]))
fr = list(linalg.frange(0, 1, 1.0 / 49))
if len(fr) != 50:
    msgs.append("frange(0, 1, 1/49) has %d values, the last two are %r, %r" % (len(fr), fr[-2], fr[-1]))
if msgs:
    print("DEFECT: " + "; ".join(msgs))
    sys.exit(1)
print("ok")
sys.exit(0)
