# voxelize() documents the keyword ``padding`` ("voxel padding for in-outs finding. Default: 10e-8") but the
# implementation only reads ``tol``: the documented keyword is silently ignored.
import sys
from geomdl import BSpline, utilities, voxelize

s = BSpline.Surface()
s.degree_u = s.degree_v = 1
s.set_ctrlpts([[0, 0, 0], [0, 1, 0], [1, 0, 1], [1, 1, 1]], 2, 2)   # the plane z = x over the unit square
s.knotvector_u = s.knotvector_v = utilities.generate_knot_vector(1, 2)
s.sample_size = 8

grid, base = voxelize.voxelize(s, grid_size=(4, 4, 4))
# a padding of 10 (ten times the size of the shape) must make every voxel contain a sampled point
grid, padded = voxelize.voxelize(s, grid_size=(4, 4, 4), padding=10.0)
grid, told = voxelize.voxelize(s, grid_size=(4, 4, 4), tol=10.0)    # undocumented name which is actually used
if padded == base and sum(padded) != len(padded):
    print("DEFECT: voxelize(padding=10.0) is ignored: %d/%d voxels filled, same as without it (undocumented tol=10.0 "
          "fills %d/%d)" % (sum(padded), len(padded), sum(told), len(told)))
    sys.exit(1)
print("ok")
sys.exit(0)
