# voxelize(use_cubes=True) of a planar rational surface does not terminate / exhausts the memory: the un-weighted
# control points of a NURBS shape are (P*w)/w, which differs from P by one ulp for some weights, so the bounding box of
# the plane z = 0.1 has the extent 1.4e-17 in z. This extent is "> 0", becomes the cube edge length and the grid gets
# ~1e17 layers in x and y. (The earlier repair only skips step sizes which are exactly zero.)
import sys, subprocess, textwrap
child = textwrap.dedent('''
    import resource
    resource.setrlimit(resource.RLIMIT_AS, (2 * 1024 ** 3, 2 * 1024 ** 3))
    from geomdl import NURBS, utilities, voxelize
    s = NURBS.Surface()
    s.degree_u = s.degree_v = 1
    s.ctrlpts_size_u = 2; s.ctrlpts_size_v = 2
    s.ctrlpts = [[0, 0, 0.1], [0, 1, 0.1], [1, 0, 0.1], [1, 1, 0.1]]
    s.weights = [1.0, 0.2, 0.2, 1.0]
    s.knotvector_u = s.knotvector_v = utilities.generate_knot_vector(1, 2)
    s.sample_size = 8
    print("bbox", s.bbox)
    grid, filled = voxelize.voxelize(s, grid_size=(8, 8, 8), use_cubes=True)
    print("voxels", len(grid))
''')
try:
    out = subprocess.run([sys.executable, "-c", child], capture_output=True, text=True, timeout=30)
    ok = out.returncode == 0
    detail = (out.stdout.strip().replace("\n", " | ") + " " + out.stderr.strip().splitlines()[-1:][0:1].__str__())
except subprocess.TimeoutExpired as e:
    ok = False
    detail = "no result after 30 s (%s)" % (e.stdout.decode().strip() if e.stdout else "")
if not ok:
    print("DEFECT: voxelize(use_cubes=True) of the planar NURBS surface z=0.1 does not finish: " + detail)
    sys.exit(1)
print("ok", detail)
sys.exit(0)
