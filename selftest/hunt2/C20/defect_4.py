# The orientation test (linalg.is_left), and with it wn_poly and convex_hull, are evaluated in plain floating point
# without an error filter: for points which are NOT on the line (by exact rational arithmetic on the given floats)
# is_left returns 0 or even the opposite sign; convex_hull then drops hull vertices and wn_poly answers inside for an
# outside point (and vice versa). Products also underflow/overflow silently for |coordinates| < 1e-160 / > 1e155.
import sys
from fractions import Fraction as F
from geomdl import linalg


def sgn(x):
    return (x > 0) - (x < 0)


def orient(a, b, c):
    a = [F(x) for x in a]; b = [F(x) for x in b]; c = [F(x) for x in c]
    return sgn((b[0] - a[0]) * (c[1] - a[1]) - (c[0] - a[0]) * (b[1] - a[1]))


def hull(points):
    pts = sorted(set((F(p[0]), F(p[1])) for p in points))
    def half(seq):
        h = []
        for p in seq:
            while len(h) > 1 and orient(h[-2], h[-1], p) <= 0:
                h.pop()
            h.append(p)
        return h
    lo, up = half(pts), half(reversed(pts))
    return lo[:-1] + up[:-1]


def winding(pt, poly):
    wn = 0
    for a, b in zip(poly[:-1], poly[1:]):
        if F(a[1]) <= F(pt[1]):
            if F(b[1]) > F(pt[1]) and orient(a, b, pt) > 0:
                wn += 1
        elif F(b[1]) <= F(pt[1]) and orient(a, b, pt) < 0:
            wn -= 1
    return wn


msgs = []
# 1. opposite sign
a, b, c = [0.152294891092718, -0.6939511604820237], [0.9773144897135113, 0.8851052873092609], \
          [1.8019572903364645, 2.4634405579200287]
if sgn(linalg.is_left(a, b, c)) != orient(a, b, c):
    msgs.append("is_left sign %d, exact %d" % (sgn(linalg.is_left(a, b, c)), orient(a, b, c)))
# 2. zero for a point off the line (Kettner et al., "Classroom examples of robustness problems")
a, b, c = [12.0, 12.0], [24.0, 24.0], [0.5, 0.5000000000000003]
if sgn(linalg.is_left(a, b, c)) != orient(a, b, c):
    msgs.append("is_left((12,12),(24,24),(0.5,0.5000000000000003)) sign %d, exact %d"
                % (sgn(linalg.is_left(a, b, c)), orient(a, b, c)))
# 3. tiny / huge coordinates: a clear left turn
for sc in (1e-170, 1e160):
    a, b, c = [0.0, 0.0], [sc, 0.0], [0.0, sc]
    if sgn(linalg.is_left(a, b, c)) != 1:
        msgs.append("is_left of a right-angled triangle of size %g is %r" % (sc, linalg.is_left(a, b, c)))
# 4. convex hull misses a vertex
pts = [[-0.2, 0.0], [-0.2, -0.30000000000000004], [-0.1, -0.1], [-0.30000000000000004, 0.1],
       [-0.30000000000000004, -0.2]]
lib = sorted((F(p[0]), F(p[1])) for p in linalg.convex_hull([list(p) for p in pts]))
if lib != sorted(hull(pts)):
    msgs.append("convex_hull returns %d vertices, exact hull has %d" % (len(lib), len(hull(pts))))
tri = [[0.0, 0.0], [1e-170, 0.0], [0.0, 1e-170]]
if len(linalg.convex_hull([list(p) for p in tri])) != 3:
    msgs.append("convex_hull of a triangle of size 1e-170 has %d vertices" % len(linalg.convex_hull(tri)))
# 5. winding number test
pt, poly = (0.4, 0.5), [(0.0, 0.9), (0.8, 0.1), (0.9, 0.8), (0.0, 0.9)]
assert all(orient(p, q, pt) != 0 for p, q in zip(poly[:-1], poly[1:]))   # not on the boundary
if linalg.wn_poly(pt, poly) != bool(winding(pt, poly)):
    msgs.append("wn_poly((0.4,0.5), triangle) = %r, exact winding number %d" % (linalg.wn_poly(pt, poly), winding(pt, poly)))

if msgs:
    print("DEFECT: floating-point orientation predicate disagrees with exact arithmetic: " + "; ".join(msgs))
    sys.exit(1)
print("ok")
sys.exit(0)
