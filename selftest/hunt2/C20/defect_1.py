# 2-D rays which are clearly not parallel (angle ~2.5e-4 rad, tolerance for COLINEAR is 5.7e-14) are reported as SKEW.
# Two lines in a plane are either parallel or intersecting; SKEW is impossible in 2-D.
import sys
from fractions import Fraction as F
from geomdl import ray

cases = [
    # ray1 passes exactly through the origin point of ray2 at t1 = -1.25 (0.4 - 1.25*1.2 = -1.1, 3.4 - 1.25*1.6 = 1.4)
    (((0.4, 3.4), (1.6, 5.0)), ((-1.1, 1.4), (0.1, 3.001))),
    (((2.1, -3.8), (0.6, -2.1)), ((-4.5, 3.7), (-6.0, 5.405))),
    (((-4.4, 0.9), (-1.6, 1.3)), ((2.6, 1.9), (5.405, 2.3))),
    (((0.17199616797753237, 0.15722571496127502), (-0.297667641890881, 0.44336923924368277)),
     ((-0.8222404919204032, 0.7610679180028728), (-1.292190445313099, 1.046741778475412))),
]
bad = []
for (a, b), (c, d) in cases:
    r1, r2 = ray.Ray(a, b), ray.Ray(c, d)
    # exact reference on the stored floats
    d1 = [F(y) - F(x) for x, y in zip(*r1.points)]
    d2 = [F(y) - F(x) for x, y in zip(*r2.points)]
    den = d1[0] * d2[1] - d1[1] * d2[0]
    assert den != 0
    pd = [F(y) - F(x) for x, y in zip(r1.p, r2.p)]
    t1e = (pd[0] * d2[1] - pd[1] * d2[0]) / den
    t2e = (pd[0] * d1[1] - pd[1] * d1[0]) / den
    t1, t2, st = ray.intersect(r1, r2)
    if st != ray.RayIntersection.INTERSECT:
        bad.append((a, b, c, d, st, t1, float(t1e), t2, float(t2e)))
# 3-D: two rays built from dyadic numbers which meet exactly at X = r1(-1.25) = r2(-0.25), angle ~1e-7 rad
p1, q1 = [6.375, -2.875, 8.8125], [10.375, -4.875, 10.5625]
p2, q2 = ([2.3750000447034836, -0.8749999850988388, 7.062499985098839],
          [6.375000223517418, -2.874999925494194, 8.812499925494194])
X1 = [F(p) + F(-5, 4) * (F(q) - F(p)) for p, q in zip(p1, q1)]
X2 = [F(p) + F(-1, 4) * (F(q) - F(p)) for p, q in zip(p2, q2)]
assert X1 == X2  # exact common point
cases.append(((p1, q1), (p2, q2)))
t1, t2, st = ray.intersect(ray.Ray(p1, q1), ray.Ray(p2, q2))
if st != ray.RayIntersection.INTERSECT:
    bad.append((p1, q1, p2, q2, st, t1, -1.25, t2, -0.25))
if bad:
    print("DEFECT: %d/%d intersecting, non-parallel ray pairs reported as status %d (SKEW) instead of INTERSECT, e.g. %r"
          % (len(bad), len(cases), bad[0][4], bad[0][:4]))
    sys.exit(1)
print("ok")
sys.exit(0)
