# The voxel padding is the absolute number 10e-8, whatever the size of the shape. For a small shape the padding is
# larger than a voxel and voxels are marked as filled although no sampled point lies inside them (for a shape of the
# size 1e-7 every voxel of the grid is marked); for a large one (1e12) it is absorbed by rounding.
import sys
from geomdl import BSpline, utilities, voxelize


def surf(scale):
    s = BSpline.Surface()
    s.degree_u = s.degree_v = 1
    # the plane z = x over a square of edge length ``scale``
    s.set_ctrlpts([[0, 0, 0], [0, scale, 0], [scale, 0, scale], [scale, scale, scale]], 2, 2)
    s.knotvector_u = s.knotvector_v = utilities.generate_knot_vector(1, 2)
    s.sample_size = 8
    return s


def exact_filled(grid, pts):
    # closed voxels: the most generous reading of "a sampled point lies inside the voxel"
    return [int(any(all(mn[k] <= p[k] <= mx[k] for k in range(3)) for p in pts)) for mn, mx in grid]


ref_s = surf(1.0)
ref_grid, ref_filled = voxelize.voxelize(ref_s, grid_size=(4, 4, 4))
msgs = []
for scale in (1e-6, 1e-7):
    s = surf(scale)
    grid, filled = voxelize.voxelize(s, grid_size=(4, 4, 4))
    ex = exact_filled(grid, s.evalpts)
    spurious = sum(1 for f, e in zip(filled, ex) if f and not e)
    if spurious:
        msgs.append("size %g: %d voxels filled, %d of them contain no sampled point (unit-size copy of the same shape: "
                    "%d filled)" % (scale, sum(filled), spurious, sum(ref_filled)))
if msgs:
    print("DEFECT: absolute voxel padding: " + "; ".join(msgs))
    sys.exit(1)
print("ok")
sys.exit(0)
