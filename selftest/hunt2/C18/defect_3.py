"""precision= rounds the sampled parameters of evaluate() but (with normalize_kv=False) not the knot vector, so sampled
parameters are rounded to values OUTSIDE of the domain: points far outside the bounding box, length > control polygon;
with find_span_binsearch the evaluation does not terminate."""
import sys, math, signal
from geomdl import BSpline, operations, helpers

def make(**kw):
    c = BSpline.Curve(normalize_kv=False, precision=3, **kw)
    c.degree = 2
    c.ctrlpts = [[0, 0], [1, 2], [3, 0]]
    c.knotvector = [0.0004, 0.0004, 0.0004, 0.0024, 0.0024, 0.0024]     # domain [0.0004, 0.0024]
    return c

problems = []
c = make()
c.sample_size = 41      # step 0.00005: the second parameter 0.00045 is rounded to 0.000 < 0.0004 = start of the domain
bb = c.bbox
out = [q for q in c.evalpts if not all(bb[0][d] - 1e-9 <= q[d] <= bb[1][d] + 1e-9 for d in range(2))]
L = operations.length_curve(c)
poly = sum(math.dist(c.ctrlpts[i], c.ctrlpts[i + 1]) for i in range(2))
if out:
    problems.append("%d evaluated points outside bbox %s, e.g. %s" % (len(out), bb, out[0]))
if L > poly + 1e-9:
    problems.append("length_curve %r > control polygon length %r" % (L, poly))

def _h(a, b): raise TimeoutError()
signal.signal(signal.SIGALRM, _h)
c = make(find_span_func=helpers.find_span_binsearch)
c.knotvector = [0.0004, 0.0004, 0.0004, 0.0014, 0.0014, 0.0014]
c.sample_size = 41
signal.alarm(5)
try:
    c.evaluate()
except TimeoutError:
    problems.append("evaluate() with find_span_binsearch does not terminate")
finally:
    signal.alarm(0)
if problems:
    print("DEFECT: " + "; ".join(problems))
    sys.exit(1)
sys.exit(0)
