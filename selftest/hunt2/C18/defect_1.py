"""find_span_binsearch assigns a parameter that lies within 1e-5*range below the END of the domain to the last
knot span even when an interior knot lies in between -> the basis functions of the wrong span are evaluated outside
their interval (negative values) and the evaluated point leaves the hull of the active control points and the bbox."""
import sys
from fractions import Fraction as F
from geomdl import BSpline, helpers

kv = [0, 0, 0, 0.99999, 0.999995, 1, 1, 1]
P = [[0, 0], [1, 0], [2, 0], [3, 1], [4, 0]]
u = 0.999992            # inside [0.99999, 0.999995): active control points are P[1], P[2], P[3]

def make(span_func):
    c = BSpline.Curve(find_span_func=span_func)
    c.degree = 2
    c.ctrlpts = P
    c.knotvector = kv
    return c

lin = make(helpers.find_span_linear).evaluate_single(u)
crv = make(helpers.find_span_binsearch)
got = crv.evaluate_single(u)
bb = crv.bbox

# exact reference (quadratic B-spline, span 3)
U = [F(k) for k in crv.knotvector]; x = F(u); i = 3
N = [F(0)] * 3
N[0] = (U[i + 1] - x) ** 2 / ((U[i + 1] - U[i - 1]) * (U[i + 1] - U[i]))
N[2] = (x - U[i]) ** 2 / ((U[i + 2] - U[i]) * (U[i + 1] - U[i]))
N[1] = 1 - N[0] - N[2]
ref = [float(sum(N[k] * F(P[i - 2 + k][d]) for k in range(3))) for d in range(2)]

inside = all(bb[0][d] - 1e-9 <= got[d] <= bb[1][d] + 1e-9 for d in range(2))
err = max(abs(g - r) for g, r in zip(got, ref))
if err > 1e-6 or not inside:
    print("DEFECT: binsearch point %s at u=%r, exact %s (linear search %s), bbox %s, inside bbox: %s" % (got, u, ref, lin, bb, inside))
    sys.exit(1)
sys.exit(0)
