"""The ctrlpts getter hands out a live list. Editing a control point through it (crv.ctrlpts[0][0] = x)
 - BSpline: changes the shape, but the cached evalpts and the cached bbox keep describing the old shape;
 - NURBS: changes only a cache: ctrlpts and bbox report the edited net, the shape ignores it.
In both cases the clamped curve no longer starts at its (reported) first control point / lies in the reported bbox."""
import sys
from geomdl import BSpline, NURBS

problems = []
def inside(pt, bb):
    return all(bb[0][d] - 1e-9 <= pt[d] <= bb[1][d] + 1e-9 for d in range(len(pt)))

def make(cls):
    c = cls()
    c.degree = 2
    c.ctrlpts = [[0, 0], [1, 2], [3, 0]]
    c.knotvector = [0, 0, 0, 1, 1, 1]
    return c

c = make(BSpline.Curve)
_ = c.evalpts, c.bbox            # read
c.ctrlpts[0][0] = -10.0          # edit through the view
p0 = c.evaluate_single(0.0)      # the shape did change: starts at (-10, 0)
if list(c.evalpts[0]) != list(p0):
    problems.append("BSpline: evalpts[0] = %s but evaluate_single(0) = %s" % (c.evalpts[0], p0))
if not inside(p0, c.bbox):
    problems.append("BSpline: point %s outside the reported bbox %s" % (p0, c.bbox))

n = make(NURBS.Curve)
n.ctrlpts[0][0] = -10.0
if list(n.evalpts[0]) != list(n.ctrlpts[0]):
    problems.append("NURBS: first control point reported as %s, bbox %s, but the curve starts at %s" % (n.ctrlpts[0], n.bbox, n.evalpts[0]))

if problems:
    print("DEFECT: " + "; ".join(problems))
    sys.exit(1)
sys.exit(0)
