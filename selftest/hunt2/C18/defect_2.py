"""linalg.linspace collapses every interval shorter than the ABSOLUTE length 1e-7 to its start point, so a shape whose
(not normalized) knot vector spans <= 1e-7 is 'evaluated' to a single point: the clamped curve does not end at its last
control point and length_curve returns 0 < chord."""
import sys, math
from geomdl import BSpline, operations

c = BSpline.Curve(normalize_kv=False)
c.degree = 2
c.ctrlpts = [[0, 0], [1, 2], [3, 0]]
c.knotvector = [0, 0, 0, 1e-7, 1e-7, 1e-7]     # a valid clamped knot vector, domain [0, 1e-7]

pts = c.evalpts
length = operations.length_curve(c)
chord = math.dist(c.ctrlpts[0], c.ctrlpts[-1])
problems = []
if len(pts) != c.sample_size:
    problems.append("%d evaluated points instead of %d" % (len(pts), c.sample_size))
if math.dist(pts[-1], c.ctrlpts[-1]) > 1e-9:
    problems.append("last evaluated point %s != last control point %s" % (pts[-1], c.ctrlpts[-1]))
if length < chord - 1e-9:
    problems.append("length_curve %r < chord %r" % (length, chord))

# the same for a surface: one direction with a short range
s = BSpline.Surface(normalize_kv=False)
s.degree_u = 1; s.degree_v = 1
s.set_ctrlpts([[0, 0, 0], [0, 1, 0], [1, 0, 0], [1, 1, 1]], 2, 2)
s.knotvector_u = [0, 0, 1, 1]
s.knotvector_v = [0, 0, 5e-8, 5e-8]
s.sample_size = 3
if len(s.evalpts) != 9 or math.dist(s.evalpts[-1], s.ctrlpts[-1]) > 1e-9:
    problems.append("surface: %d evaluated points instead of 9, last %s != corner %s" % (len(s.evalpts), s.evalpts[-1], s.ctrlpts[-1]))
if problems:
    print("DEFECT: " + "; ".join(problems))
    sys.exit(1)
sys.exit(0)
