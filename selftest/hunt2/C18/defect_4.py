"""Parameters outside of the domain are evaluated silently (polynomial extension of the first/last span):
 - normalize_kv=True checks 0 <= u <= 1, which is not the domain [U[p], U[n+1]] of an unclamped knot vector;
 - normalize_kv=False checks nothing at all.
The returned 'curve points' are far outside the hull / bounding box; with find_span_binsearch the call never returns."""
import sys
from geomdl import BSpline, knotvector

problems = []
def outside(pt, bb):
    return not all(bb[0][d] - 1e-9 <= pt[d] <= bb[1][d] + 1e-9 for d in range(len(pt)))

# (a) unclamped, normalized: domain is [1/3, 2/3]; u = 0.0 and u = 1.0 are what a caller naturally passes
c = BSpline.Curve()
c.degree = 2
c.ctrlpts = [[0, 0], [1, 2], [3, 0], [4, 2]]
c.knotvector = knotvector.generate(2, 4, clamped=False)
for u in (0.0, 1.0):
    try:
        pt = c.evaluate_single(u)
    except Exception:
        continue
    if outside(pt, c.bbox):
        problems.append("unclamped curve, domain %s: evaluate_single(%r) = %s, bbox %s" % (c.domain, u, pt, c.bbox))
try:
    c.evaluate(start=0.0, stop=1.0)
    if outside(c.evalpts[0], c.bbox):
        problems.append("evaluate(start=0.0, stop=1.0) accepted, first point %s" % c.evalpts[0])
except Exception:
    pass

# (b) not normalized: domain [2, 5]
c = BSpline.Curve(normalize_kv=False)
c.degree = 2
c.ctrlpts = [[0, 0], [1, 2], [3, 0]]
c.knotvector = [2, 2, 2, 5, 5, 5]
for u in (0.5, 7.0):
    try:
        pt = c.evaluate_single(u)
    except Exception:
        continue
    if outside(pt, c.bbox):
        problems.append("domain %s: evaluate_single(%r) = %s, bbox %s" % (c.domain, u, pt, c.bbox))

if problems:
    print("DEFECT: " + "; ".join(problems))
    sys.exit(1)
sys.exit(0)
