"""C14: a container of >= 10 surfaces (volumes) written with export_smesh (export_vmesh) and read back with
import_smesh(dir) (import_vmesh(dir)) comes back in a different order (lexicographic file-name sort: 1, 10, 11, 2, ...)."""
import os, sys, tempfile
from geomdl import BSpline, multi, exchange, utilities


def surf(k):
    s = BSpline.Surface()
    s.degree_u = 1
    s.degree_v = 1
    s.set_ctrlpts([[0.0, 0.0, float(k)], [0.0, 1.0, float(k)], [1.0, 0.0, float(k)], [1.0, 1.0, float(k)]], 2, 2)
    s.knotvector_u = utilities.generate_knot_vector(1, 2)
    s.knotvector_v = utilities.generate_knot_vector(1, 2)
    return s


def vol(k):
    v = BSpline.Volume()
    v.degree_u = v.degree_v = v.degree_w = 1
    pts = [[float(u), float(vv), float(w) + 10.0 * k] for w in range(2) for u in range(2) for vv in range(2)]
    v.set_ctrlpts(pts, 2, 2, 2)
    v.knotvector_u = v.knotvector_v = v.knotvector_w = utilities.generate_knot_vector(1, 2)
    return v


msgs = []
d = tempfile.mkdtemp()
cont = multi.SurfaceContainer([surf(k) for k in range(12)])
exchange.export_smesh(cont, os.path.join(d, "smesh.txt"))
back = exchange.import_smesh(d)
exp = [s.ctrlpts[0][2] for s in cont]
got = [s.ctrlpts[0][2] for s in back]
if exp != got:
    msgs.append("smesh order %r != %r" % (got, exp))

d = tempfile.mkdtemp()
cont = multi.VolumeContainer([vol(k) for k in range(11)])
exchange.export_vmesh(cont, os.path.join(d, "vmesh.txt"))
back = exchange.import_vmesh(d)
exp = [v.ctrlpts[0][2] for v in cont]
got = [v.ctrlpts[0][2] for v in back]
if exp != got:
    msgs.append("vmesh order %r != %r" % (got, exp))

if msgs:
    print("DEFECT: multi-file mesh round trip permutes the shapes: " + "; ".join(msgs))
    sys.exit(1)
sys.exit(0)
