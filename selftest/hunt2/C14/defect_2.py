"""C14: export_txt(volume, two_dimensional=True) silently writes only the first w-layer (size_u * size_v points)
of the control points; for curves the flag is documented/implemented as ignored, for volumes data is dropped."""
import os, sys, tempfile
from geomdl import BSpline, exchange, utilities

v = BSpline.Volume()
v.degree_u = v.degree_v = v.degree_w = 1
su, sv, sw = 2, 3, 4
pts = [[float(u), float(vv), float(w)] for w in range(sw) for u in range(su) for vv in range(sv)]
v.set_ctrlpts(pts, su, sv, sw)
v.knotvector_u = utilities.generate_knot_vector(1, su)
v.knotvector_v = utilities.generate_knot_vector(1, sv)
v.knotvector_w = utilities.generate_knot_vector(1, sw)
f = os.path.join(tempfile.mkdtemp(), "vol.txt")
try:
    exchange.export_txt(v, f, two_dimensional=True)
except Exception:
    sys.exit(0)  # an explicit rejection is acceptable
res = exchange.import_txt(f, two_dimensional=True)
got = res[0]
if len(got) != len(v.ctrlpts) or got != [list(p) for p in v.ctrlpts]:
    print("DEFECT: export_txt(volume, two_dimensional=True) wrote %d of %d control points" % (len(got), len(v.ctrlpts)))
    sys.exit(1)
sys.exit(0)
