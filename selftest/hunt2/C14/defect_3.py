"""C14: the sampling density set on a container is not written by export_json unless container.evalpts happened to
be read before the export (the container pushes its delta to the elements lazily, only inside the evalpts getter).
The same container with the same settings therefore produces two different files, and the shapes read back from the
first one evaluate with another sampling density than the container that was written."""
import os, sys, tempfile
from geomdl import BSpline, multi, exchange, utilities


def crv(k):
    c = BSpline.Curve()
    c.degree = 2
    c.ctrlpts = [[0.0, 0.0, float(k)], [1.0, 2.0, float(k)], [2.0, 0.0, float(k)]]
    c.knotvector = utilities.generate_knot_vector(2, 3)
    return c


cont = multi.CurveContainer(crv(0), crv(1))
cont.sample_size = 5          # sampling density of the container: 5 points per curve
f = os.path.join(tempfile.mkdtemp(), "cont.json")
exchange.export_json(cont, f)
back = exchange.import_json(f)
n_cont = len(cont.evalpts)    # 2 * 5
n_back = sum(len(c.evalpts) for c in back)
if n_back != n_cont or [c.sample_size for c in back] != [5, 5]:
    print("DEFECT: container sample_size=5 exported; shapes read back have sample sizes %r (%d vs %d evaluated points)"
          % ([c.sample_size for c in back], n_back, n_cont))
    sys.exit(1)
sys.exit(0)
