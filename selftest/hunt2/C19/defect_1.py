"""C19: a curve that has NO control points compares equal to a curve that has n control points.

Curve.reset(ctrlpts=True) (called directly, or implicitly by a ctrlpts assignment that is rejected half-way) empties
the control points but keeps _control_points_size; SplineGeometry.__eq__ zips the two control point lists without
comparing their lengths, so the emptied curve equals every curve with the same degree / knot vector / former size.
"""
import sys, copy
from geomdl import BSpline, NURBS

msgs = []

def bcurve():
    c = BSpline.Curve(); c.degree = 2; c.ctrlpts = [[0, 0], [1, 1], [2, 0]]; c.knotvector = [0, 0, 0, 1, 1, 1]
    return c

# (a) documented reset(ctrlpts=True)
a = bcurve(); b = copy.deepcopy(a)
b.reset(ctrlpts=True)
if len(b.ctrlpts) != len(a.ctrlpts) and (a == b or b == a or not (a != b)):
    msgs.append("reset(ctrlpts=True): curve with 0 control points == curve with 3 control points")

# (b) a rejected assignment wipes the points, the wiped curve still equals the original
a = bcurve(); b = copy.deepcopy(a)
try:
    b.ctrlpts = [[0, 0], [1, 5], [2]]      # rejected with ValueError
except Exception:
    pass
if len(b.ctrlpts) != len(a.ctrlpts) and (a == b or b == a):
    msgs.append("rejected ctrlpts assignment: curve with %d control points == curve with 3" % len(b.ctrlpts))

# (c) rational curve
n = NURBS.Curve(); n.degree = 2; n.ctrlptsw = [[0, 0, 1], [.5, .5, .5], [2, 0, 1]]; n.knotvector = [0, 0, 0, 1, 1, 1]
m = copy.deepcopy(n); m.reset(ctrlpts=True)
if len(m.ctrlptsw) != len(n.ctrlptsw) and (n == m or m == n):
    msgs.append("NURBS curve with 0 control points == NURBS curve with 3")

if msgs:
    print("DEFECT C19/1: " + "; ".join(msgs))
    sys.exit(1)
sys.exit(0)
