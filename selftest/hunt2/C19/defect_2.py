"""C19: surfaces / volumes holding a different number of control points compare equal.

set_ctrlpts(pts, size_u, size_v) does not check len(pts) == size_u * size_v and __eq__ does not compare the number of
stored control points (zip truncates), so a surface storing 12 control points equals a surface storing 9.
Fixed either by rejecting the inconsistent input or by comparing the control point counts.
"""
import sys
from geomdl import BSpline

def surf(pts, su, sv):
    s = BSpline.Surface(); s.degree_u = 2; s.degree_v = 2
    s.set_ctrlpts(pts, su, sv)
    s.knotvector_u = [0, 0, 0, 1, 1, 1]; s.knotvector_v = [0, 0, 0, 1, 1, 1]
    return s

pts9 = [[float(i), float(j), float(i * j)] for i in range(3) for j in range(3)]
pts12 = pts9 + [[9., 9., 9.], [8., 8., 8.], [7., 7., 7.]]
a = surf(pts9, 3, 3)
try:
    b = surf(pts12, 3, 3)
except Exception:
    sys.exit(0)      # inconsistent input rejected: fine
if len(a.ctrlpts) != len(b.ctrlpts) and (a == b or b == a):
    print("DEFECT C19/2: surface storing %d control points == surface storing %d control points"
          % (len(a.ctrlpts), len(b.ctrlpts)))
    sys.exit(1)
sys.exit(0)
