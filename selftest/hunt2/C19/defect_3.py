"""C19: with precision >= 324 the comparison tolerance 10 ** -precision underflows to 0.0 and the strict '<' test
makes == irreflexive: a shape does not equal itself nor its deep copy."""
import sys, copy
from geomdl import BSpline
c = BSpline.Curve(precision=324); c.degree = 2; c.ctrlpts = [[0, 0], [1, 1], [2, 0]]; c.knotvector = [0, 0, 0, 1, 1, 1]
if not (c == c) or not (copy.deepcopy(c) == c) or (c != c):
    print("DEFECT C19/3: precision=324: c == c is %s, deepcopy(c) == c is %s" % (c == c, copy.deepcopy(c) == c))
    sys.exit(1)
sys.exit(0)
