"""C17 defect 2: trimming.fix_trim_curves drops (or re-orients) a closed trim curve when the knot vectors are kept on
ranges of different lengths, because the orientation tolerance is tol * max(range_u, range_v)**2 whereas the cross
products it is compared with scale with range_u * range_v.

The same unit-square patch with the same small square hole (3 % x 3 % of the parametric domain, sense not set) is
prepared with fix_trim_curves and tessellated
  * with normalised knot vectors, and
  * with normalize_kv=False on u in [0, 1e4], v in [0, 1] (trim curve mapped affinely); also u in [0, 1], v in [0, 1e-4].
All configurations must keep the trim curve, give it the same sense and produce the same trimmed mesh.
"""
import sys
from geomdl import BSpline, tessellate, trimming

HOLE = (0.40, 0.43, 0.50, 0.53)  # fractions of the parametric domain


def build(norm, ru, rv, ssize=51):
    s = BSpline.Surface(normalize_kv=norm)
    s.degree_u = 1
    s.degree_v = 1
    s.set_ctrlpts([[0., 0., 0.], [0., 1., 0.], [1., 0., 0.], [1., 1., 0.]], 2, 2)
    s.knotvector_u = [0., 0., ru, ru]
    s.knotvector_v = [0., 0., rv, rv]
    s.sample_size = ssize
    x0, x1, y0, y1 = HOLE
    poly = [[x0, y0], [x1, y0], [x1, y1], [x0, y1], [x0, y0]]
    if not norm:
        poly = [[ru * x, rv * y] for x, y in poly]
    t = BSpline.Curve()
    t.degree = 1
    t.ctrlpts = poly
    t.knotvector = [0, 0, .25, .5, .75, 1, 1]
    t.sample_size = 5
    s.trims = [t]
    s.tessellator = tessellate.TrimTessellate()
    trimming.fix_trim_curves(s)
    ntrims = len(s.trims)
    senses = [tr.opt_get('reversed') for tr in s.trims]
    s.tessellate()
    area = 0.0
    for f in s.faces:
        a, b, c = [v.data for v in f.vertices]
        area += abs((b[0] - a[0]) * (c[1] - a[1]) - (c[0] - a[0]) * (b[1] - a[1])) / 2.0
    return ntrims, senses, area


msgs = []
for ru, rv in ((1e4, 1.0), (1.0, 1e-4)):
    ref = build(True, ru, rv)
    got = build(False, ru, rv)
    if ref[0] != got[0] or ref[1] != got[1] or abs(ref[2] - got[2]) > 1e-7:
        msgs.append("ranges u=[0,%g] v=[0,%g]: normalised -> %d trim(s), sense %r, mesh area %.6f; original ranges -> "
                    "%d trim(s), sense %r, mesh area %.6f" % (ru, rv, ref[0], ref[1], ref[2], got[0], got[1], got[2]))

if msgs:
    print("DEFECT: fix_trim_curves / trimmed mesh depend on normalize_kv: " + "; ".join(msgs))
    sys.exit(1)
print("ok")
sys.exit(0)
