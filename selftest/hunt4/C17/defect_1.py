"""C17 defect 1: trimmed tessellation snaps intersection parameters to the absolute values 0.0 / 1.0 (+- 1e-7).

The same planar bilinear patch S(u, v) = (u', v', 0) (u', v' = parameters as fractions of the knot range) with the same
rectangular hole is tessellated with normalised knot vectors ([0, 1]) and with the knot vectors kept on their original
range (trim curve mapped affinely, normalize_kv=False).  Both meshes must consist of the same points.

 * range [0.99995, 1.00005]: the left edge of the hole is at 50.06 % of the u-range, i.e. at u = 1.00000006.  The
   intersections of that edge with the grid lines are "within 1e-7 of 1.0" and are replaced by u = 1.0 (50 %).
 * range [0, 1e-4]: the left edge of the hole is at 0.06 % of the u-range (u = 6e-8) and is moved to u = 0.0.
"""
import sys
from geomdl import BSpline, tessellate


def build(norm, a, b, f0, ssize):
    s = BSpline.Surface(normalize_kv=norm)
    s.degree_u = 1
    s.degree_v = 1
    s.set_ctrlpts([[0., 0., 0.], [0., 1., 0.], [1., 0., 0.], [1., 1., 0.]], 2, 2)
    s.knotvector_u = [a, a, b, b]
    s.knotvector_v = [a, a, b, b]
    s.sample_size = ssize
    poly = [[f0, 0.2], [0.9, 0.2], [0.9, 0.8], [f0, 0.8], [f0, 0.2]]   # hole, in fractions of the knot range
    if not norm:
        poly = [[a + (b - a) * x, a + (b - a) * y] for x, y in poly]
    t = BSpline.Curve()
    t.degree = 1
    t.ctrlpts = poly
    t.knotvector = [0, 0, .25, .5, .75, 1, 1]
    t.sample_size = 5
    t.opt = ['reversed', 0]
    s.trims = [t]
    s.tessellator = tessellate.TrimTessellate()
    s.tessellate()
    return [tuple(v.data) for v in s.vertices]


def deviation(ref, got):
    if len(ref) != len(got):
        return float('inf')
    dev = 0.0
    for p in got:
        dev = max(dev, min(max(abs(x - y) for x, y in zip(p, q)) for q in ref))
    for q in ref:
        dev = max(dev, min(max(abs(x - y) for x, y in zip(p, q)) for p in got))
    return dev


msgs = []
for (a, b, f0, ssize) in ((0.99995, 1.00005, 0.5006, 4), (0.0, 1e-4, 6e-4, 3)):
    ref = build(True, a, b, f0, ssize)
    got = build(False, a, b, f0, ssize)
    dev = deviation(ref, got)
    n_ref = len([p for p in ref if abs(p[0] - f0) < 1e-7])
    n_got = len([p for p in got if abs(p[0] - f0) < 1e-7])
    if dev > 1e-7 or n_ref != n_got:
        msgs.append("range [%r, %r]: vertex deviation %.3g of the model size, vertices on the hole edge x=%g: %d "
                    "(normalised) vs %d (original range)" % (a, b, dev, f0, n_ref, n_got))

if msgs:
    print("DEFECT: trimmed mesh depends on normalize_kv: " + "; ".join(msgs))
    sys.exit(1)
print("ok")
sys.exit(0)
