"""C17 defect 3: trimming.fix_multi_trim_curves compares the end points of the trim pieces, which live in the parametric
space of the surface, with the absolute tolerance 10e-8.

A square hole is described by two polylines in a curve container; the second piece is given in the opposite direction
(it has to be reversed) and the pieces meet up to 1e-9 of the parametric range (the function exists to repair exactly
this kind of data; 1e-9 is 100 times below its tolerance).  With normalised knot vectors the second piece is reversed
and the loop is closed.  With the knot vectors kept on [0, 1e4] (trim mapped affinely, normalize_kv=False) the same
gap is 1e-5 > 10e-8: the pieces are taken for unconnected, nothing is reversed, two connector curves are added and the
trimmed mesh is a different one.
"""
import sys
from geomdl import BSpline, tessellate, trimming, multi

GAP = 1e-9  # fraction of the parametric range


def seg(pts):
    c = BSpline.Curve()
    c.degree = 1
    c.ctrlpts = pts
    n = len(pts)
    c.knotvector = [0.] + [i / (n - 1.) for i in range(n)] + [1.]
    c.sample_size = n
    return c


def build(norm, a, b):
    s = BSpline.Surface(normalize_kv=norm)
    s.degree_u = 1
    s.degree_v = 1
    s.set_ctrlpts([[0., 0., 0.], [0., 1., 0.], [1., 0., 0.], [1., 1., 0.]], 2, 2)
    s.knotvector_u = [a, a, b, b]
    s.knotvector_v = [a, a, b, b]
    s.sample_size = 6
    m = (lambda x, y: [x, y]) if norm else (lambda x, y: [a + (b - a) * x, a + (b - a) * y])
    c1 = seg([m(0.31, 0.31), m(0.72, 0.31), m(0.72, 0.72)])
    c2 = seg([m(0.31, 0.31 + GAP), m(0.31, 0.72), m(0.72 - GAP, 0.72)])  # from the start of c1 to the end of c1
    cc = multi.CurveContainer(c1, c2)
    cc.opt = ['reversed', 0]
    s.trims = [cc]
    s.tessellator = tessellate.TrimTessellate()
    trimming.fix_multi_trim_curves(s, delta=0.34)
    npieces = len(s.trims[0])
    s.tessellate()
    area = 0.0
    for f in s.faces:
        p, q, r = [v.data for v in f.vertices]
        area += abs((q[0] - p[0]) * (r[1] - p[1]) - (r[0] - p[0]) * (q[1] - p[1])) / 2.0
    return npieces, len(s.faces), area


ref = build(True, 0.0, 1e4)
got = build(False, 0.0, 1e4)
if ref[0] != got[0] or ref[1] != got[1] or abs(ref[2] - got[2]) > 1e-7:
    print("DEFECT: fix_multi_trim_curves depends on normalize_kv: normalised -> %d trim pieces, %d faces, area %.5f; "
          "knot range [0, 1e4] -> %d trim pieces, %d faces, area %.5f" % (ref + got))
    sys.exit(1)
print("ok")
sys.exit(0)
