"""helpers.knot_removal (default s / span) does not invert helpers.knot_insertion for the SAME parameter when that
parameter is a round-off neighbour of the knot (0.3 * 3 for the knot 0.9): the multiplicity is counted within a tolerance
but the span is found by exact comparison, so the two do not fit together (knot_insertion was fixed, knot_removal was not)."""
import sys
from geomdl import helpers

p = 3
kv = [0.0, 0.0, 0.0, 0.0, 0.4, 0.9, 1.0, 1.0, 1.0, 1.0]
P = [[0.0, 0.0, 0.0], [1.0, 2.0, 0.0], [2.0, -1.0, 1.0], [3.0, 3.0, 2.0], [4.0, 0.0, 0.0], [5.0, 1.0, 1.0]]
u = 0.3 * 3          # 0.8999999999999999, one ulp below the knot 0.9
num = 2

# insertion (fixed earlier: takes u for the knot 0.9)
Q = helpers.knot_insertion(p, kv, P, u, num=num)
span = helpers.find_span_linear(p, kv, len(P), 0.9)
kvq = helpers.knot_insertion_kv(kv, 0.9, span, num)          # [.., 0.4, 0.9, 0.9, 0.9, 1, ..]

# removal with the same parameter and the same count
R = helpers.knot_removal(p, kvq, Q, u, num=num)
dev = max(abs(a - b) for x, y in zip(R, P) for a, b in zip(x, y)) if len(R) == len(P) else float('inf')

# removal with the knot value itself works
R2 = helpers.knot_removal(p, kvq, Q, 0.9, num=num)
dev2 = max(abs(a - b) for x, y in zip(R2, P) for a, b in zip(x, y))
assert dev2 < 1e-12, dev2

if dev > 1e-9:
    print("DEFECT: knot_removal(u=0.3*3) after knot_insertion(u=0.3*3) does not restore the control points: deviation %g "
          "(with u=0.9: %g)" % (dev, dev2))
    sys.exit(1)
print("ok")
