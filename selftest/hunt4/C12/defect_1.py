"""C12 / error path: a control point assignment which is rejected wipes the shape it was applied to.

set_ctrlpts() (and the ctrlpts / ctrlptsw / ctrlpts2d setters which call it) resets the control points, the sizes, the
bounding box, the 2-D grid, the evaluated points, the tessellation and the NURBS caches BEFORE the per-point validation
runs. When that validation (or the size-argument check of the base class) raises, the exception reaches the caller and
the object has lost its definition; for curves the derived views are also inconsistent with each other afterwards
(ctrlpts == [] but ctrlpts_size == N).
"""
import sys
from geomdl import BSpline, NURBS

problems = []


def state(o):
    cp = o.ctrlptsw if o.rational else o.ctrlpts
    st = dict(cp=[list(p) for p in cp], n=o.ctrlpts_size, size=list(o.cpsize) if o.pdimension > 1 else [o.ctrlpts_size],
              evalpts=[list(p) for p in o.evalpts], bbox=[list(b) for b in o.bbox])
    if o.pdimension == 2:
        st['cp2d'] = [[list(p) for p in row] for row in o.ctrlpts2d]
        st['verts'] = [list(v.data) for v in o.vertices]
    if o.rational:
        st['P'] = [list(p) for p in o.ctrlpts]
        st['w'] = list(o.weights)
    return st


def surface(cls):
    s = cls()
    s.degree_u = 2
    s.degree_v = 1
    pts = [[float(i), float(j), float((i * j) % 3)] + ([1.0 + 0.5 * j] if cls is NURBS.Surface else [])
           for i in range(4) for j in range(3)]
    s.set_ctrlpts(pts, 4, 3)
    s.knotvector_u = [0, 0, 0, 0.5, 1, 1, 1]
    s.knotvector_v = [0, 0, 0.4, 1, 1]
    s.sample_size = 4
    return s


def curve(cls):
    c = cls()
    c.degree = 2
    pts = [[0.0, 0.0], [1.0, 3.0], [2.0, -1.0], [3.0, 4.0], [4.0, 0.0]]
    if cls is NURBS.Curve:
        pts = [p + [1.0] for p in pts]
    c.set_ctrlpts(pts)
    c.knotvector = [0, 0, 0, 0.3, 0.6, 1, 1, 1]
    c.sample_size = 5
    return c


def attempt(name, obj, call):
    try:
        before = state(obj)
    except Exception as e:  # should not happen
        problems.append("%s: cannot read the shape before the call (%r)" % (name, e))
        return
    try:
        call(obj)
    except Exception:
        pass
    else:
        problems.append("%s: the malformed input was accepted" % name)
        return
    # the call was rejected: the object must be what it was (or at least consistent)
    try:
        after = state(obj)
    except Exception as e:
        problems.append("%s: rejected call left an unusable shape: ctrlpts=%d points, ctrlpts_size=%d, reading it raises %s"
                        % (name, len(obj.ctrlpts), obj.ctrlpts_size, type(e).__name__))
        return
    if after != before:
        problems.append("%s: rejected call changed the shape" % name)


def bad_point(o):
    cp = [list(p) for p in (o.ctrlptsw if o.rational else o.ctrlpts)]
    cp[-1] = cp[-1][:-1]  # one point with a missing coordinate
    if o.pdimension == 1:
        o.set_ctrlpts(cp)
    else:
        o.set_ctrlpts(cp, *o.cpsize)


def bad_point_setter(o):
    cp = [list(p) for p in o.ctrlpts]
    cp[1] = "not a point"
    o.ctrlpts = cp


def no_sizes(o):
    o.set_ctrlpts([list(p) for p in (o.ctrlptsw if o.rational else o.ctrlpts)])  # size_u, size_v forgotten


def small_grid(o):
    o.ctrlpts2d = [[list(p) for p in row[:1]] for row in o.ctrlpts2d]  # 4 x 1 grid, degree_v = 1 needs 2


for cls in (BSpline.Surface, NURBS.Surface):
    attempt(cls.__module__ + ".Surface.set_ctrlpts(one short point)", surface(cls), bad_point)
    attempt(cls.__module__ + ".Surface.ctrlpts = [... 'not a point' ...]", surface(cls), bad_point_setter)
    attempt(cls.__module__ + ".Surface.set_ctrlpts(points) without sizes", surface(cls), no_sizes)
    attempt(cls.__module__ + ".Surface.ctrlpts2d = too small grid", surface(cls), small_grid)
for cls in (BSpline.Curve, NURBS.Curve):
    attempt(cls.__module__ + ".Curve.set_ctrlpts(one short point)", curve(cls), bad_point)
    attempt(cls.__module__ + ".Curve.ctrlpts = [... 'not a point' ...]", curve(cls), bad_point_setter)

if problems:
    print("DEFECT (%d of 12 cases): %s" % (len(problems), problems[0]))
    for p in problems[1:]:
        sys.stderr.write(p + "\n")
    sys.exit(1)
print("ok")
sys.exit(0)
