"""C12 / iso-parametric sampling: after evaluate(start_u == stop_u) the tessellation of the surface cannot be built any more.

Surface.evaluate(start_u=a, stop_u=a) (an iso-parametric line; also start_v == stop_v or both) stores 1 x N points in the
evaluated points cache. Surface.tessellate() - and with it .vertices, .faces, export_obj/stl/off(update_delta=False) and
SurfaceContainer.tessellate(delta=False) - hands this cache to the tessellation component together with
size_u=sample_size_u, size_v=sample_size_v and fails with IndexError. A freshly built surface with the same definition
(and every non-degenerate partial evaluation, whose vertices are re-evaluated on the whole domain) reports the mesh.
"""
import sys
from geomdl import BSpline, NURBS, tessellate, exchange


def surface(cls, tsl, norm):
    s = cls(normalize_kv=norm)
    s.degree_u = 2
    s.degree_v = 2
    pts = [[float(i), float(j), float((i * j) % 3)] + ([1.0] if cls is NURBS.Surface else []) for i in range(4) for j in range(4)]
    s.set_ctrlpts(pts, 4, 4)
    s.knotvector_u = [-2, -2, -2, -1, 0, 0, 0]
    s.knotvector_v = [0, 0, 0, 0.3, 1, 1, 1]
    s.tessellator = tsl()
    s.sample_size_u = 4
    s.sample_size_v = 3
    return s


problems = []
for cls in (BSpline.Surface, NURBS.Surface):
    for tsl in (tessellate.TriangularTessellate, tessellate.QuadTessellate, tessellate.TrimTessellate):
        for norm in (True, False):
            for kw in (dict(start_u=0.0, stop_u=0.0), dict(start_v=0.3, stop_v=0.3), dict(start_u=0.0, stop_u=0.0, start_v=1.0, stop_v=1.0)):
                ref = surface(cls, tsl, norm)
                expected = ([list(v.data) for v in ref.vertices], [list(f.data) for f in ref.faces])
                s = surface(cls, tsl, norm)
                s.evaluate(**kw)  # iso-parametric sampling; u = 0.0 is the end of the domain [-2, 0] / start of [0, 1]
                name = "%s.%s/%s/normalize_kv=%s/evaluate(%s)" % (cls.__module__, cls.__name__, tsl.__name__, norm, kw)
                try:
                    got = ([list(v.data) for v in s.vertices], [list(f.data) for f in s.faces])
                except Exception as e:
                    problems.append("%s: .vertices raises %s: %s" % (name, type(e).__name__, e))
                    continue
                if got != expected:
                    problems.append("%s: tessellation differs from the one of a fresh surface" % name)

# the same through an exporter which is told to keep the sampling of the surface
s = surface(BSpline.Surface, tessellate.TriangularTessellate, True)
expected = exchange.export_obj_str(surface(BSpline.Surface, tessellate.TriangularTessellate, True), update_delta=False)
s.evaluate(start_u=0.5, stop_u=0.5)
try:
    if exchange.export_obj_str(s, update_delta=False) != expected:
        problems.append("export_obj_str(update_delta=False) differs after evaluate(start_u == stop_u)")
except Exception as e:
    problems.append("export_obj_str(update_delta=False) raises %s after evaluate(start_u == stop_u)" % type(e).__name__)

if problems:
    print("DEFECT (%d cases): %s" % (len(problems), problems[0]))
    sys.exit(1)
print("ok")
sys.exit(0)
