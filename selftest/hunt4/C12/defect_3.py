"""C12: Curve.reset(ctrlpts=True) drops the control points but keeps reporting their number.

abstract.Curve.reset re-initializes _control_points and _bounding_box only; _control_points_size is left alone (the
Surface and Volume versions set it to zeros). ctrlpts_size, cpsize and data['size'] therefore describe the control points
which were removed. The same stale size is what a curve is left with after a rejected set_ctrlpts() call.
"""
import sys
from geomdl import BSpline, NURBS

problems = []
for cls in (BSpline.Curve, NURBS.Curve):
    c = cls()
    c.degree = 2
    pts = [[0.0, 0.0], [1.0, 3.0], [2.0, -1.0], [3.0, 4.0], [4.0, 0.0]]
    c.set_ctrlpts([p + [1.0] for p in pts] if c.rational else pts)
    c.knotvector = [0, 0, 0, 0.3, 0.6, 1, 1, 1]
    c.reset(ctrlpts=True)

    fresh = cls()   # the same definition: a degree, no control points
    fresh.degree = 2

    got = (len(c.ctrlpts), c.ctrlpts_size, list(c.cpsize), c.data['size'])
    exp = (len(fresh.ctrlpts), fresh.ctrlpts_size, list(fresh.cpsize), fresh.data['size'])
    if got != exp:
        problems.append("%s.Curve after reset(ctrlpts=True): (len(ctrlpts), ctrlpts_size, cpsize, data['size']) = %s, "
                        "fresh curve without control points: %s" % (cls.__module__, got, exp))

if problems:
    print("DEFECT: " + problems[0])
    sys.exit(1)
print("ok")
sys.exit(0)
