"""convert.bspline_to_nurbs / nurbs_to_bspline drop the trim curves and the sampling settings of the input shape:
the converted shape does not evaluate / tessellate identically."""
import sys
from geomdl import BSpline, convert, tessellate

msgs = []

# (a) curve: evalpts of the converted curve differ (sample size is lost)
c = BSpline.Curve()
c.degree = 2
c.ctrlpts = [[0.0, 0.0], [1.0, 1.0], [2.0, 0.0]]
c.knotvector = [0, 0, 0, 1, 1, 1]
c.sample_size = 7
nc = convert.bspline_to_nurbs(c)
if nc.evalpts != c.evalpts:
    msgs.append("curve: %d evalpts before, %d after bspline_to_nurbs" % (len(c.evalpts), len(nc.evalpts)))
nc.sample_size = 7
if convert.nurbs_to_bspline(nc).evalpts != c.evalpts:
    msgs.append("curve: evalpts differ after nurbs_to_bspline")

# (b) trimmed surface: the trim curve is lost, the hole is tessellated
s = BSpline.Surface()
s.degree_u = s.degree_v = 2
s.set_ctrlpts([[float(i), float(j), float((i * j) % 3)] for i in range(4) for j in range(4)], 4, 4)
s.knotvector_u = [0, 0, 0, .5, 1, 1, 1]
s.knotvector_v = [0, 0, 0, .5, 1, 1, 1]
s.sample_size = 12
t = BSpline.Curve()
t.degree = 1
t.ctrlpts = [[.25, .25], [.75, .25], [.75, .75], [.25, .75], [.25, .25]]
t.knotvector = [0, 0, .25, .5, .75, 1, 1]
s.trims = [t]
s.tessellator = tessellate.TrimTessellate()
n = convert.bspline_to_nurbs(s)
if len(n.trims) != len(s.trims):
    msgs.append("surface: %d trim(s) before, %d after bspline_to_nurbs" % (len(s.trims), len(n.trims)))
if n.sample_size_u != s.sample_size_u:
    msgs.append("surface: sample size %d before, %d after" % (s.sample_size_u, n.sample_size_u))
b = convert.nurbs_to_bspline(n)
if not b.rational and len(b.trims) != len(s.trims):
    msgs.append("surface: trims lost by nurbs_to_bspline too")

if msgs:
    print("DEFECT: conversion does not keep trims / sampling: " + "; ".join(msgs))
    sys.exit(1)
print("ok")
