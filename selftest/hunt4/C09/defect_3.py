"""A rejected assignment of one view (ctrlpts / ctrlptsw / ctrlpts2d) destroys the other views and the grid sizes:
the object is validated only after it has been reset."""
import sys
from geomdl import NURBS

def make():
    s = NURBS.Surface()
    s.degree_u = s.degree_v = 1
    s.ctrlpts_size_u, s.ctrlpts_size_v = 2, 3
    s.ctrlpts = [[float(i), float(j), 0.0] for i in range(2) for j in range(3)]
    s.weights = [1.0, 2.0, 3.0, 4.0, 5.0, 6.0]
    s.knotvector_u = [0, 0, 1, 1]
    s.knotvector_v = [0, 0, .5, 1, 1]
    return s

msgs = []
# 1. unweighted view: the last point has a missing coordinate
s = make()
bad = [list(p) for p in s.ctrlpts]
bad[-1] = bad[-1][:2]
try:
    s.ctrlpts = bad
    msgs.append("ragged ctrlpts accepted")
except Exception:
    if list(s.weights) != [1.0, 2.0, 3.0, 4.0, 5.0, 6.0] or len(s.ctrlptsw) != 6 or s.ctrlpts_size_u != 2:
        msgs.append("after the rejected 'ctrlpts = ...': weights=%r, %d ctrlptsw, sizes=%r"
                    % (list(s.weights), len(s.ctrlptsw), [s.ctrlpts_size_u, s.ctrlpts_size_v]))
# 2. 2-D view: too few rows for the degree - the same request is rejected by set_ctrlpts without any damage
s = make()
rows = [list(r) for r in s.ctrlpts2d][:1]
try:
    s.set_ctrlpts([p for r in rows for p in r], 1, 3)
except Exception:
    if len(s.ctrlptsw) != 6:
        msgs.append("set_ctrlpts damaged the surface")
try:
    s.ctrlpts2d = rows
    msgs.append("ctrlpts2d with 1 row accepted for degree 1")
except Exception:
    if list(s.weights) != [1.0, 2.0, 3.0, 4.0, 5.0, 6.0] or len(s.ctrlptsw) != 6:
        msgs.append("after the rejected 'ctrlpts2d = ...': weights=%r, %d ctrlptsw, sizes=%r"
                    % (list(s.weights), len(s.ctrlptsw), [s.ctrlpts_size_u, s.ctrlpts_size_v]))
if msgs:
    print("DEFECT: a rejected control point assignment empties the rational surface: " + "; ".join(msgs))
    sys.exit(1)
print("ok")
