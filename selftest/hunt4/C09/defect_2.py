"""CPGen.GridWeighted: the weight view is empty although the weighted grid carries unit weights, until the grid is read once."""
import sys
from geomdl import CPGen

g = CPGen.GridWeighted(4, 4)
g.generate(2, 2)
w_before = list(g.weight)          # read the weights first
grid = g.grid                      # 3 x 3 points [x*w, y*w, z*w, w]
w_grid = [pt[-1] for row in grid for pt in row]
w_after = list(g.weight)
if w_before != w_grid or w_before != w_after:
    print("DEFECT: GridWeighted.weight == %r before the grid is read, but the grid points carry %r (and weight == %r afterwards)"
          % (w_before, w_grid, w_after))
    sys.exit(1)
print("ok")
