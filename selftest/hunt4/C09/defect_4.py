"""convert.nurbs_to_bspline drops weights which differ from 1 by less than the absolute 10e-8: the returned B-spline does
not evaluate like the rational input (deviation 2e-8 of the model size, 20 x the 1e-9 noise level)."""
import sys
from geomdl import NURBS, convert

c = NURBS.Curve()
c.degree = 2
c.ctrlpts = [[0.0, 0.0], [1.0, 2.0], [2.0, 0.0]]
c.weights = [1.0, 1.0 + 9e-8, 1.0]
c.knotvector = [0, 0, 0, 1, 1, 1]
b = convert.nurbs_to_bspline(c)
p, q = c.evaluate_single(0.5), b.evaluate_single(0.5)
dev = max(abs(x - y) for x, y in zip(p, q)) / 2.0   # relative to the size of the model
if dev > 1e-9:
    print("DEFECT: nurbs_to_bspline returned a %s shape which deviates by %.2e (relative) from the rational input"
          % ("rational" if b.rational else "non-rational", dev))
    sys.exit(1)
print("ok")
