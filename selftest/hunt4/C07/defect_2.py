"""C07 (borderline input): decomposition of a clamped shape whose first/last interior knot coincides with the domain end
(end knot repeated degree + 2 times; accepted by knotvector.check, evaluated and split correctly by the library) raises
'Cannot split from the domain edge' instead of returning one Bezier piece per non-empty knot interval. The same
over-full multiplicity at an INTERIOR knot is decomposed correctly.
"""
import sys
from geomdl import BSpline, operations

PTS = [[0.0, 0.0, 0.0], [1.0, 1.0, 0.5], [2.0, 0.0, 1.0], [3.0, 1.0, 0.0], [4.0, 0.0, 0.5]]
msgs = []
for kv in ([0, 0, 0, 0, 0.5, 1, 1, 1], [0, 0, 0, 0.5, 1, 1, 1, 1]):
    c = BSpline.Curve()
    c.degree = 2
    c.ctrlpts = PTS
    c.knotvector = kv
    try:
        bz = operations.decompose_curve(c)
    except Exception as e:
        msgs.append("decompose_curve(kv=%s) raised %r" % (kv, e))
        continue
    if len(bz) != 2:
        msgs.append("decompose_curve(kv=%s) returned %d pieces, 2 non-empty knot intervals" % (kv, len(bz)))
        continue
    for b, (a0, a1) in zip(bz, ((0.0, 0.5), (0.5, 1.0))):
        for t in (0.0, 0.4, 1.0):
            p, q = b.evaluate_single(t), c.evaluate_single(a0 + t * (a1 - a0))
            if max(abs(x - y) for x, y in zip(p, q)) > 1e-12:
                msgs.append("piece deviates for kv=%s" % kv)

# surface, v-direction
s = BSpline.Surface()
s.degree_u, s.degree_v = 1, 2
s.set_ctrlpts([[float(i), float(j), float((i + 1) * (j % 3))] for i in range(2) for j in range(5)], 2, 5)
s.knotvector_u = [0, 0, 1, 1]
s.knotvector_v = [0, 0, 0, 0.5, 1, 1, 1, 1]
try:
    if len(operations.decompose_surface(s, decompose_dir='v')) != 2:
        msgs.append("decompose_surface returned a wrong number of patches")
except Exception as e:
    msgs.append("decompose_surface raised %r" % (e,))

if msgs:
    print("DEFECT: " + "; ".join(msgs))
    sys.exit(1)
print("ok")
