"""C07 / shared state: helpers.knot_insertion_alpha is memoised with lru_cache on (u, knot vector, span, idx, leg).
numpy.float32(0.375) == 0.375 and both hash alike, so a call made once with a numpy.float32 parameter (which itself fails
with a TypeError, or computes in single precision) leaves numpy.float32 coefficients in the process-wide cache. Every
later split / decomposition / knot insertion of ANY curve or surface with the same knot vector at the same plain Python
float parameter then gets those coefficients: it raises TypeError, or returns pieces which are only single-precision
accurate (3e-8 relative instead of 1e-16).
"""
import sys
from fractions import Fraction as F
import numpy as np
from geomdl import BSpline, operations

KV3 = [0, 0, 0, 0, 0.25, 0.5, 0.75, 1, 1, 1, 1]
KV1 = [0, 0, 0.2, 0.4, 0.6, 0.8, 1, 1]
PTS = [[0.1, 0.7, 0.3], [1.3, -0.9, 0.2], [2.1, 0.35, -0.6], [2.9, 1.7, 0.9], [4.3, -0.45, 0.1], [5.2, 0.8, -0.7], [6.1, 0.15, 0.4]]


def make(degree, kv):
    c = BSpline.Curve()
    c.degree = degree
    c.ctrlpts = PTS[:len(kv) - degree - 1]
    c.knotvector = kv
    return c


def deboor(p, U, P, u):
    k = p
    while not (U[k] <= u < U[k + 1]):
        k += 1
    d = [list(P[j + k - p]) for j in range(p + 1)]
    for r in range(1, p + 1):
        for j in range(p, r - 1, -1):
            a = (u - U[j + k - p]) / (U[j + 1 + k - r] - U[j + k - p])
            d[j] = [(1 - a) * x + a * y for x, y in zip(d[j - 1], d[j])]
    return d[p]


def deviation(orig, piece, a, b):
    """largest distance between the piece and the original curve on [a, b], exact reference"""
    U = [F(k) for k in orig.knotvector]
    P = [[F(x) for x in pt] for pt in orig.ctrlpts]
    worst = 0.0
    for t in (0.0, 0.3, 0.77):
        u = F(a) + F(t) * (F(b) - F(a))
        ex = deboor(orig.degree, U, P, u)
        got = piece.evaluate_single(t)
        worst = max(worst, max(abs(float(F(g) - e)) for g, e in zip(got, ex)))
    return worst


msgs = []

# --- A: a request with a numpy.float32 parameter on one curve ...
try:
    operations.split_curve(make(3, KV3), np.float32(0.375))
except Exception:
    pass
# ... breaks the same, valid, plain float request on another curve
c = make(3, KV3)
try:
    pcs = operations.split_curve(c, 0.375)
    dev = max(deviation(c, pcs[0], 0.0, 0.375), deviation(c, pcs[1], 0.375, 1.0))
    if dev > 1e-9:
        msgs.append("split_curve(c, 0.375) deviates by %.2e after an unrelated float32 call" % dev)
except TypeError as e:
    msgs.append("split_curve(c, 0.375) raises TypeError(%s) after an unrelated call with numpy.float32(0.375)" % e)

# --- B: silent variant (one insertion only: the float32 call itself does not fail)
try:
    operations.split_curve(make(1, KV1), np.float32(0.5))
except Exception:
    pass
c = make(1, KV1)
try:
    pcs = operations.split_curve(c, 0.5)
    dev = max(deviation(c, pcs[0], 0.0, 0.5), deviation(c, pcs[1], 0.5, 1.0))
    if dev > 1e-9:
        msgs.append("split_curve(c, 0.5) deviates by %.2e (single precision) after an unrelated float32 call" % dev)
except TypeError as e:
    msgs.append("split_curve(c, 0.5) raises TypeError(%s) after an unrelated float32 call" % e)

if msgs:
    print("DEFECT: " + "; ".join(msgs))
    sys.exit(1)
print("ok")
sys.exit(0)
