"""C20 / voxelize: the default voxel padding is the absolute constant 10e-8. For a model whose unit of length is small
(the same surface scaled by 2**-20 ~ 1e-6, an exact scaling in binary floating point) the padding is as large as the
voxels themselves, so voxels are marked filled although no sampled point lies inside them (not even on their boundary),
and the result differs from the voxelization of the unit-sized model."""
import sys
from geomdl import BSpline, operations, voxelize, knotvector

def make(scale):
    s = BSpline.Surface()
    s.degree_u = s.degree_v = 2
    pts = [[float(i), float(j), 0.25 * ((i * j) % 3) - 0.125 * i] for i in range(4) for j in range(4)]
    s.set_ctrlpts([[c * scale for c in p] for p in pts], 4, 4)
    s.knotvector_u = knotvector.generate(2, 4)
    s.knotvector_v = knotvector.generate(2, 4)
    s.sample_size = 6
    return s

def spurious(grid, filled, pts):
    # filled voxels which do not contain any sampled point, boundaries included, with a slack of 1e-6 voxel sizes
    n = 0
    for bb, f in zip(grid, filled):
        e = [1e-6 * (bb[1][d] - bb[0][d]) for d in range(3)]
        if f and not any(all(bb[0][d] - e[d] <= p[d] <= bb[1][d] + e[d] for d in range(3)) for p in pts):
            n += 1
    return n

gs = (6, 6, 6)
s1 = make(1.0)
g1, f1 = voxelize.voxelize(s1, grid_size=gs)
res = []
for k in (-20, -24):
    s2 = make(2.0 ** k)
    g2, f2 = voxelize.voxelize(s2, grid_size=gs)
    sp = spurious(g2, f2, s2.evalpts)
    if f2 != f1 or sp:
        res.append("scale 2**%d: %d filled voxels (unit model: %d), %d of them contain no sampled point"
                   % (k, sum(f2), sum(f1), sp))
assert spurious(g1, f1, s1.evalpts) == 0
if res:
    print("DEFECT voxelize default padding is absolute: " + "; ".join(res))
    sys.exit(1)
print("ok")
sys.exit(0)
