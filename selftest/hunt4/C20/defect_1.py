"""C20 / ray.intersect: two 3-D rays which cross exactly (they share their second point) are reported SKEW as soon as
the crossing point is ~1e3 times farther from the origin than the ray origins: the skew tolerance of _intersect3d is
relative to the magnitudes of the ray ORIGINS only, whereas the round-off error of the line distance grows with the
magnitude of the second points (d = pt2 - pt1 is rounded at the size of pt2)."""
import sys, random
from fractions import Fraction as F
from geomdl import ray
from geomdl.ray import Ray, RayIntersection

def exact_status(p1, q1, p2, q2):
    P1, Q1, P2, Q2 = [[F(c) for c in p] for p in (p1, q1, p2, q2)]
    d1 = [b - a for a, b in zip(P1, Q1)]; d2 = [b - a for a, b in zip(P2, Q2)]
    cr = [d1[1]*d2[2]-d1[2]*d2[1], d1[2]*d2[0]-d1[0]*d2[2], d1[0]*d2[1]-d1[1]*d2[0]]
    pd = [b - a for a, b in zip(P1, P2)]
    if all(c == 0 for c in cr):
        return RayIntersection.COLINEAR
    return RayIntersection.INTERSECT if sum(a*b for a, b in zip(pd, cr)) == 0 else RayIntersection.SKEW

# 1. hand-made example: both rays end in the same point, so they cross there (t1 = t2 = 1) whatever the round-off
c = (1000.1, 2000.2, 3000.3)
a = ((0.1, 0.2, 0.3), c, (0.7, -0.4, 0.2), c)
assert exact_status(*a) == RayIntersection.INTERSECT
t1, t2, st = ray.intersect(Ray(a[0], a[1]), Ray(a[2], a[3]))
msgs = []
if st != RayIntersection.INTERSECT:
    msgs.append("rays (0.1,0.2,0.3)->c and (0.7,-0.4,0.2)->c, c=(1000.1,2000.2,3000.3): status %d (SKEW) instead of 1 "
                "(INTERSECT), t1=%r t2=%r" % (st, t1, t2))

# 2. randomized: origins in the unit cube, common end point at distance ~L (coordinate ratio <= 1e4, sin(angle) ~ 1/L)
rng = random.Random(3)
for L in (1e3, 1e4):
    bad = n = 0
    for _ in range(500):
        c = [rng.uniform(-L, L) for _ in range(3)]
        p1 = [rng.uniform(-1, 1) for _ in range(3)]; p2 = [rng.uniform(-1, 1) for _ in range(3)]
        assert exact_status(p1, c, p2, c) == RayIntersection.INTERSECT
        n += 1
        if ray.intersect(Ray(p1, c), Ray(p2, c))[2] != RayIntersection.INTERSECT:
            bad += 1
    if bad:
        msgs.append("L=%g: %d/%d exactly crossing pairs not reported INTERSECT" % (L, bad, n))

if msgs:
    print("DEFECT ray.intersect: " + "; ".join(msgs))
    sys.exit(1)
print("ok")
sys.exit(0)
