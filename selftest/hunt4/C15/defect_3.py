"""C15 (error path): SurfaceContainer.tessellate() records the arguments of a request *before* it carries it out.

If the request raises (interrupted run, an exception from a tessellation component, an invalid argument such as
vertex_spacing=2.0), the container keeps the vertices/faces of the previous request but remembers the arguments of the
failed one.  Repeating the same - now valid / uninterrupted - request is then taken for "already tessellated with the
same arguments" and returns without doing anything: container.vertices / container.faces describe the mesh of the OLD
request (other vertex spacing), not the mesh that was asked for.  Surface.tessellate() stores its arguments only after
the component has succeeded and does not have this problem.
"""
import sys
from geomdl import BSpline, multi, tessellate


class Interruptible(tessellate.TriangularTessellate):
    """ A tessellation component whose run can be interrupted (stands for Ctrl-C during a long tessellation). """
    interrupt = False

    def tessellate(self, points, **kwargs):
        if Interruptible.interrupt:
            raise RuntimeError("interrupted")
        super(Interruptible, self).tessellate(points, **kwargs)


def make(dz):
    s = BSpline.Surface()
    s.degree_u = 2
    s.degree_v = 2
    s.set_ctrlpts([[float(i), float(j), dz + float((i * j) % 3)] for i in range(4) for j in range(4)], 4, 4)
    s.knotvector_u = [0, 0, 0, 0.5, 1, 1, 1]
    s.knotvector_v = [0, 0, 0, 0.5, 1, 1, 1]
    s.tessellator = Interruptible()
    return s


cont = multi.SurfaceContainer(make(0.0), make(5.0))
cont.sample_size = 13

cont.tessellate(vertex_spacing=4)           # coarse preview: 4 x 4 vertices per surface
coarse = (len(cont.vertices), len(cont.faces))
assert coarse == (2 * 16, 2 * 18), coarse

Interruptible.interrupt = True
try:
    cont.tessellate(vertex_spacing=1)       # the full-resolution request is interrupted
except RuntimeError:
    pass
Interruptible.interrupt = False

cont.tessellate(vertex_spacing=1)           # the same request again, nothing in its way now
got = (len(cont.vertices), len(cont.faces))
expected = (2 * 13 * 13, 2 * 12 * 12 * 2)
if got != expected:
    print("DEFECT: after an interrupted container.tessellate(vertex_spacing=1) the repeated request is skipped: "
          "%d vertices / %d faces (the mesh of the earlier vertex_spacing=4 request) instead of %d / %d"
          % (got + expected))
    sys.exit(1)
print("ok")
sys.exit(0)
