import random, math, itertools
from fractions import Fraction as F
from geomdl import BSpline, NURBS, knotvector, tessellate, multi, exchange, operations, utilities

def ref_basis(p, U, u, i):
    # Cox-de Boor exact with closed last span
    U = [F(x) for x in U]; u = F(u)
    m = len(U) - 1
    n = m - p - 1
    def N(i, k):
        if k == 0:
            if U[i] <= u < U[i+1]: return F(1)
            # closed at domain end
            if u == U[n+1] and U[i] < U[i+1] and U[i+1] == U[n+1]: return F(1)
            return F(0)
        a = F(0)
        if U[i+k] != U[i]: a += (u - U[i]) / (U[i+k] - U[i]) * N(i, k-1)
        if U[i+k+1] != U[i+1]: a += (U[i+k+1] - u) / (U[i+k+1] - U[i+1]) * N(i+1, k-1)
        return a
    return N(i, p)

def ref_surf_pt(surf, u, v):
    pu, pv = surf.degree_u, surf.degree_v
    U, V = surf.knotvector_u, surf.knotvector_v
    nu, nv = surf.ctrlpts_size_u, surf.ctrlpts_size_v
    if surf.rational:
        cp = surf.ctrlptsw
    else:
        cp = surf.ctrlpts
    Bu = [ref_basis(pu, U, u, i) for i in range(nu)]
    Bv = [ref_basis(pv, V, v, j) for j in range(nv)]
    dim = len(cp[0])
    out = [F(0)] * dim
    for i in range(nu):
        if Bu[i] == 0: continue
        for j in range(nv):
            if Bv[j] == 0: continue
            w = Bu[i] * Bv[j]
            p = cp[j + i * nv]
            out = [o + w * F(c) for o, c in zip(out, p)]
    if surf.rational:
        out = [o / out[-1] for o in out[:-1]]
    return [float(o) for o in out]

def rand_kv(rng, p, n, a=0.0, b=1.0, clamped=True):
    ni = n - p - 1
    inner = sorted(rng.choice([rng.random(), rng.choice([0.25, 0.5, 0.75])]) for _ in range(ni))
    # keep distance
    inner = [round(x, 3) for x in inner]
    kv = [0.0] * (p + 1) + inner + [1.0] * (p + 1)
    # avoid too-high multiplicity
    from collections import Counter
    c = Counter(inner)
    if any(v > p for v in c.values()) or any(x <= 0.0 or x >= 1.0 for x in inner):
        return rand_kv(rng, p, n, a, b, clamped)
    return [a + (b - a) * k for k in kv]

def make_surf(rng, rational=False, pu=None, pv=None, nu=None, nv=None, dom_u=(0.0, 1.0), dom_v=(0.0, 1.0), scale=1.0, shift=(0, 0, 0), normalize=True):
    pu = pu or rng.randint(1, 4); pv = pv or rng.randint(1, 4)
    nu = nu or rng.randint(pu + 1, pu + 4); nv = nv or rng.randint(pv + 1, pv + 4)
    s = NURBS.Surface(normalize_kv=normalize) if rational else BSpline.Surface(normalize_kv=normalize)
    s.degree_u = pu; s.degree_v = pv
    pts = []
    for i in range(nu):
        for j in range(nv):
            p = [scale * (i + rng.uniform(-.3, .3)) + shift[0], scale * (j + rng.uniform(-.3, .3)) + shift[1], scale * rng.uniform(-1, 1) + shift[2]]
            if rational:
                w = rng.uniform(0.5, 2.0)
                p = [c * w for c in p] + [w]
            pts.append(p)
    s.set_ctrlpts(pts, nu, nv)
    s.knotvector_u = rand_kv(rng, pu, nu, *dom_u)
    s.knotvector_v = rand_kv(rng, pv, nv, *dom_v)
    return s

def check_mesh(surf, quad=False, tol=1e-9, exact_every=7, expect_nu=None, expect_nv=None, spacing=1):
    """returns list of problems"""
    probs = []
    V = surf.vertices; Fc = surf.faces
    ids = [v.id for v in V]
    if ids != list(range(len(V))): probs.append("ids not consecutive")
    (u0, u1), (v0, v1) = surf.domain
    su, sv = surf.sample_size_u, surf.sample_size_v
    nu = len(range(0, su - 1, spacing)) + 1; nv = len(range(0, sv - 1, spacing)) + 1
    if len(V) != nu * nv: probs.append("vertex count %d != %d" % (len(V), nu * nv))
    nf = (nu - 1) * (nv - 1) * (1 if quad else 2)
    if len(Fc) != nf: probs.append("face count %d != %d" % (len(Fc), nf))
    # position check
    scale = max(max(abs(c) for c in p) for p in surf.ctrlpts) or 1.0
    for k, vt in enumerate(V):
        u, v = vt.uv
        if not (min(u0,u1) <= u <= max(u0,u1) and min(v0,v1) <= v <= max(v0,v1)):
            probs.append("uv outside domain %r" % (vt.uv,)); break
        if k % exact_every == 0:
            r = ref_surf_pt(surf, u, v)
            if max(abs(a - b) for a, b in zip(r, vt.data)) > tol * scale:
                probs.append("vertex %d at uv %r: %r != ref %r" % (k, vt.uv, vt.data, r)); break
    # topology
    edges = {}
    area = 0.0
    for f in Fc:
        d = f.data
        for i in d:
            if not (0 <= i < len(V)): probs.append("index out of range"); return probs
        vs = [V[i] for i in d]
        for a, b in zip(f.vertices, vs):
            if a is not b: probs.append("face vertex object not the listed vertex"); return probs
        uvs = [x.uv for x in vs]
        a2 = 0.0
        for i in range(len(uvs)):
            x0, y0 = uvs[i]; x1, y1 = uvs[(i + 1) % len(uvs)]
            a2 += x0 * y1 - x1 * y0
        if a2 <= 0: probs.append("non-positive orientation face %d" % f.id)
        area += a2 / 2
        for i in range(len(d)):
            e = (d[i], d[(i + 1) % len(d)])
            edges[e] = edges.get(e, 0) + 1
    tot = abs((u1 - u0) * (v1 - v0))
    if abs(area - tot) > 1e-9 * tot: probs.append("area %r != %r" % (area, tot))
    for (a, b), c in edges.items():
        if c != 1: probs.append("directed edge twice"); break
    und = set(tuple(sorted(e)) for e in edges)
    chi = len(V) - len(und) + len(Fc)
    if chi != 1: probs.append("euler %d" % chi)
    fids = [f.id for f in Fc]
    if fids != list(range(len(Fc))): probs.append("face ids not consecutive")
    return probs
