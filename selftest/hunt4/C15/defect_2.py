"""C15: transposing a surface whose trim is a multi-curve loop (multi.CurveContainer) breaks the loop.

operations.transpose / Surface.transpose swap the coordinates of every piece of the container and reverse every piece,
but keep the order of the pieces.  The reversed pieces no longer join head to tail (piece 1 runs P1->P0, piece 2 runs
P2->P1, ...), so the point sequence of the trim is a zig-zag with spurious diagonals instead of the mirrored loop and
the trimmed tessellation (and every export made from it) omits a different region than the transposed trim loop.
"""
import sys
from geomdl import BSpline, multi, operations, tessellate

def in_poly(pt, poly):
    x, y = pt
    wn = 0
    for (x0, y0), (x1, y1) in zip(poly, poly[1:] + poly[:1]):
        left = (x1 - x0) * (y - y0) - (x - x0) * (y1 - y0)
        if y0 <= y < y1 and left > 0:
            wn += 1
        elif y1 <= y < y0 and left < 0:
            wn -= 1
    return wn != 0

def in_tri(p, a, b, c):
    s = lambda p, q, r: (q[0] - p[0]) * (r[1] - p[1]) - (q[1] - p[1]) * (r[0] - p[0])
    if s(a, b, c) == 0:
        return False  # a degenerate triangle covers nothing
    d = (s(a, b, p), s(b, c, p), s(c, a, p))
    return not (min(d) < 0 and max(d) > 0)

# a planar bilinear surface, 21 x 21 samples
surf = BSpline.Surface()
surf.degree_u = 1
surf.degree_v = 1
surf.set_ctrlpts([[0.0, 0.0, 0.0], [0.0, 1.0, 0.0], [1.0, 0.0, 0.0], [1.0, 1.0, 0.0]], 2, 2)
surf.knotvector_u = [0.0, 0.0, 1.0, 1.0]
surf.knotvector_v = [0.0, 0.0, 1.0, 1.0]
surf.sample_size_u = 21
surf.sample_size_v = 21

# closed L-shaped trim loop made of 6 line segments which join head to tail
loop = [[0.22, 0.23], [0.83, 0.23], [0.83, 0.41], [0.42, 0.41], [0.42, 0.78], [0.22, 0.78]]
trim = multi.CurveContainer()
for p0, p1 in zip(loop, loop[1:] + loop[:1]):
    seg = BSpline.Curve()
    seg.degree = 1
    seg.ctrlpts = [p0, p1]
    seg.knotvector = [0.0, 0.0, 1.0, 1.0]
    trim.add(seg)
trim.delta = 0.1
surf.trims = [trim]
surf.tessellator = tessellate.TrimTessellate()

tsurf = operations.transpose(surf)   # S'(u, v) = S(v, u); the trim loop must become its mirror image
mirrored = [[q, p] for p, q in loop]

# (1) the transposed trim must still be a connected closed loop
pts = tsurf.trims[0].evalpts
jump = max(abs(a[0] - b[0]) + abs(a[1] - b[1]) for a, b in zip(pts, pts[1:]))

# (2) the omitted region must be the mirrored L (within one sampling cell = 0.05)
tris = [[v.uv for v in f.vertices] for f in tsurf.faces]
bad = []
n = 40
for i in range(n):
    for j in range(n):
        p = ((i + 0.5) / n, (j + 0.5) / n)
        trimmed = in_poly(p, mirrored)
        # skip the points closer than one cell to the boundary of the mirrored loop
        near = any(in_poly((p[0] + dx, p[1] + dy), mirrored) != trimmed
                   for dx in (-0.075, 0.0, 0.075) for dy in (-0.075, 0.0, 0.075))
        if near:
            continue
        covered = any(in_tri(p, *t) for t in tris)
        if covered == trimmed:
            bad.append((p, covered))

if jump > 0.11 or bad:
    print("DEFECT: transposed multi-curve trim is not a closed loop (largest gap between consecutive trim points %.2f, "
          "piece length is 0.1 per sample) and %d of the probed points well inside/outside the mirrored trim are "
          "tessellated wrongly, e.g. %r" % (jump, len(bad), bad[:1]))
    sys.exit(1)
print("ok")
sys.exit(0)
