"""C15: tessellating a surface after an iso-parametric evaluation (evaluate(start_u == stop_u)) raises IndexError.

Surface.tessellate() hands the cached evaluated points of the *last* evaluate() call to the tessellation component
together with sample_size_u x sample_size_v.  After surf.evaluate(start_u=a, stop_u=a) (or stop_u equal to the start of
the domain, e.g. stop_u=0.0) the cache holds 1 x sample_size_v points, so make_triangle_mesh / make_quad_mesh index
past its end.  surf.vertices, surf.faces, container.tessellate(delta=False) and export_obj/off/stl(update_delta=False)
all fail the same way; the surface stays unusable for tessellation until something resets the evaluated points.
"""
import sys
from geomdl import BSpline, tessellate, exchange

def make():
    s = BSpline.Surface()
    s.degree_u = 2
    s.degree_v = 2
    s.set_ctrlpts([[float(i), float(j), float((i * j) % 3)] for i in range(4) for j in range(4)], 4, 4)
    s.knotvector_u = [0, 0, 0, 0.5, 1, 1, 1]
    s.knotvector_v = [0, 0, 0, 0.5, 1, 1, 1]
    s.sample_size_u = 5
    s.sample_size_v = 4
    return s

failures = []
for label, kw in (("start_u == stop_u == 0.5", dict(start_u=0.5, stop_u=0.5)),
                  ("stop_u == 0.0 (start of the domain)", dict(stop_u=0.0)),
                  ("start_v == stop_v == 1.0", dict(start_v=1.0, stop_v=1.0))):
    for tsl in (tessellate.TriangularTessellate, tessellate.QuadTessellate):
        surf = make()
        surf.tessellator = tsl()
        surf.evaluate(**kw)          # legitimate iso-parametric evaluation
        try:
            verts, faces = surf.vertices, surf.faces
            nfaces = 12 * (2 if tsl is tessellate.TriangularTessellate else 1)
            if len(verts) != 20 or len(faces) != nfaces:
                failures.append("%s/%s: %d vertices, %d faces" % (label, tsl.__name__, len(verts), len(faces)))
            else:
                # every vertex is the surface point at its parameters
                for v in verts:
                    p = surf.evaluate_single(v.uv)
                    if max(abs(a - b) for a, b in zip(p, v.data)) > 1e-12:
                        failures.append("%s/%s: vertex off the surface" % (label, tsl.__name__))
                        break
        except Exception as e:
            failures.append("%s/%s: %s: %s" % (label, tsl.__name__, type(e).__name__, e))

# exporter route
surf = make()
surf.evaluate(start_u=0.5, stop_u=0.5)
try:
    exchange.export_obj_str(surf, update_delta=False)
except Exception as e:
    failures.append("export_obj_str(update_delta=False): %s: %s" % (type(e).__name__, e))

if failures:
    print("DEFECT: tessellation after evaluate(start == stop) fails: " + "; ".join(failures[:3]) + " (%d failures)" % len(failures))
    sys.exit(1)
print("ok")
sys.exit(0)
