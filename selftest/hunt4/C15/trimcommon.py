import sys, random, math
sys.path.insert(0, '/tmp/wth4/C15/_hunt')
from common import *
from geomdl import freeform

def pip(pt, poly):
    # even-odd/winding (nonzero) point in polygon
    x, y = pt; wn = 0
    n = len(poly)
    for i in range(n):
        x0, y0 = poly[i][:2]; x1, y1 = poly[(i + 1) % n][:2]
        if y0 <= y:
            if y1 > y and (x1 - x0) * (y - y0) - (x - x0) * (y1 - y0) > 0: wn += 1
        else:
            if y1 <= y and (x1 - x0) * (y - y0) - (x - x0) * (y1 - y0) < 0: wn -= 1
    return wn != 0

def dist_poly(pt, poly, sx, sy):
    # distance in cell units
    best = 1e300
    x, y = pt[0] / sx, pt[1] / sy
    n = len(poly)
    for i in range(n):
        x0, y0 = poly[i][0] / sx, poly[i][1] / sy; x1, y1 = poly[(i + 1) % n][0] / sx, poly[(i + 1) % n][1] / sy
        dx, dy = x1 - x0, y1 - y0
        L = dx * dx + dy * dy
        t = 0 if L == 0 else max(0, min(1, ((x - x0) * dx + (y - y0) * dy) / L))
        d = math.hypot(x - x0 - t * dx, y - y0 - t * dy)
        best = min(best, d)
    return best

def in_tri(p, a, b, c):
    def s(p, q, r): return (q[0] - p[0]) * (r[1] - p[1]) - (q[1] - p[1]) * (r[0] - p[0])
    if s(a, b, c) == 0: return False
    d1 = s(a, b, p); d2 = s(b, c, p); d3 = s(c, a, p)
    neg = d1 < 0 or d2 < 0 or d3 < 0; pos = d1 > 0 or d2 > 0 or d3 > 0
    return not (neg and pos)

def check_trim_mesh(surf, trims_polys, senses, nprobe=60, rng=None, tolcells=1.0):
    """trims_polys: list of polygons (evalpts of trims), senses: list of reversed flags"""
    rng = rng or random.Random(0)
    probs = []
    V = surf.vertices; Fc = surf.faces
    ids = [v.id for v in V]
    if ids != list(range(len(V))): probs.append("ids not consecutive")
    (u0, u1), (v0, v1) = surf.domain
    su, sv = surf.sample_size_u, surf.sample_size_v
    cu = (u1 - u0) / (su - 1); cv = (v1 - v0) / (sv - 1)
    scale = max(max(abs(c) for c in p) for p in surf.ctrlpts) or 1.0
    for k, vt in enumerate(V):
        u, v = vt.uv
        if not (u0 - 1e-9*abs(u1-u0) <= u <= u1 + 1e-9*abs(u1-u0) and v0 - 1e-9*abs(v1-v0) <= v <= v1 + 1e-9*abs(v1-v0)):
            probs.append("uv outside domain %r" % (vt.uv,)); break
        uu = min(max(u, u0), u1); vv = min(max(v, v0), v1)
        if k % 5 == 0:
            r = ref_surf_pt(surf, uu, vv)
            if max(abs(a - b) for a, b in zip(r, vt.data)) > 1e-7 * scale:
                probs.append("vertex %d at uv %r: %r != ref %r" % (k, vt.uv, vt.data, r)); break
    tris = []
    for f in Fc:
        d = f.data
        for i in d:
            if not (0 <= i < len(V)): probs.append("index out of range"); return probs
        vs = [V[i] for i in d]
        for a, b in zip(f.vertices, vs):
            if a is not b: probs.append("face vertex object not the listed vertex"); return probs
        tris.append([x.uv for x in vs])
        a, b, c = tris[-1]
        ar = (b[0]-a[0])*(c[1]-a[1]) - (b[1]-a[1])*(c[0]-a[0])
        if ar < -1e-12*abs(cu*cv): probs.append("negatively oriented triangle %r" % (tris[-1],))
    # bucket triangles by cell
    bad = 0
    for _ in range(nprobe * nprobe // 4):
        p = (rng.uniform(u0, u1), rng.uniform(v0, v1))
        covered = any(in_tri(p, *t) for t in tris)
        # trimmed?
        trimmed = False
        for poly, rev in zip(trims_polys, senses):
            ins = pip(p, poly)
            if (ins and not rev) or (not ins and rev): trimmed = True
        if covered == trimmed:
            d = min(dist_poly(p, poly, cu, cv) for poly in trims_polys)
            if d > math.sqrt(2) * tolcells + 1e-9:
                bad += 1
                if bad <= 2: probs.append("point %r covered=%r trimmed=%r dist=%.2f cells" % (p, covered, trimmed, d))
    return probs
