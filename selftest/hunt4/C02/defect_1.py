"""derivative_curve / derivative_surface of a RATIONAL shape return the input shape itself (only a warning is issued).

The value handed back as "the hodograph" is the position function, not its derivative: for a NURBS curve C,
operations.derivative_curve(C).evaluate_single(u) == C(u) != C'(u) = C.derivatives(u, 1)[1]; derivative_surface returns one
surface instead of the documented (S_u, S_v, S_uv) tuple. A fixed library either raises or returns shapes which evaluate to
the true derivatives (possible e.g. when all weights are equal).
"""
import sys, warnings
from geomdl import NURBS, operations

warnings.simplefilter("ignore")

def dist(a, b):
    return max(abs(x - y) for x, y in zip(a, b))

# quarter circle, weights (1, 1/sqrt(2), 1)
w = 2 ** -0.5
crv = NURBS.Curve()
crv.degree = 2
crv.ctrlpts = [[1.0, 0.0], [1.0, 1.0], [0.0, 1.0]]
crv.weights = [1.0, w, 1.0]
crv.knotvector = [0, 0, 0, 1, 1, 1]

problems = []
u = 0.3
true_d1 = crv.derivatives(u, 1)[1]          # exact (checked against exact rational arithmetic in the hunt)
try:
    hodo = operations.derivative_curve(crv)
except Exception:
    hodo = None                              # refusing is fine
if hodo is not None:
    val = hodo.evaluate_single(u)
    if hodo is crv or dist(val, true_d1) > 1e-9:
        problems.append("derivative_curve(NURBS curve) -> %s at u=%g, C'(u) = %s (returned object is the input: %s)"
                        % (val, u, true_d1, hodo is crv))

# rational surface with all weights equal to 1 (a polynomial surface; its hodographs exist)
srf = NURBS.Surface()
srf.degree_u = 2
srf.degree_v = 2
srf.ctrlpts_size_u = 3
srf.ctrlpts_size_v = 3
srf.ctrlpts = [[float(i), float(j), float((i * j) % 2)] for i in range(3) for j in range(3)]
srf.knotvector_u = [0, 0, 0, 1, 1, 1]
srf.knotvector_v = [0, 0, 0, 1, 1, 1]
skl = srf.derivatives(0.3, 0.6, 1)
try:
    res = operations.derivative_surface(srf)
except Exception:
    res = None
if res is not None:
    ok = False
    try:
        su, sv, suv = res
        ok = dist(su.evaluate_single((0.3, 0.6)), skl[1][0]) < 1e-9 and dist(sv.evaluate_single((0.3, 0.6)), skl[0][1]) < 1e-9
    except Exception:
        ok = False
    if not ok:
        problems.append("derivative_surface(NURBS surface) returned %r instead of the derivative surfaces" % (res,))

if problems:
    print("DEFECT: " + " | ".join(problems))
    sys.exit(1)
sys.exit(0)
