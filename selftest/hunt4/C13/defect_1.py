"""C13: the 2-D grid view (ctrlpts2d) keeps the old grid shape after the number of control points per direction is
re-declared with the public ctrlpts_size_u / ctrlpts_size_v setters, while the flat list, the evaluators, knot insertion,
extract_curves ... address the points with the new sizes (v fastest). The modules which read the 2-D view
(find_ctrlpts, transpose, split at an existing knot) then use other points than the evaluator for the same (u, v)."""
import sys
from geomdl import BSpline, operations, knotvector

s = BSpline.Surface()
s.degree_u = 2
s.degree_v = 2
pts = [[float(k), float((k * k) % 5), float(k % 3)] for k in range(12)]
s.set_ctrlpts(pts, 3, 4)                       # a 3 x 4 net
s.knotvector_u = knotvector.generate(2, 3)
s.knotvector_v = knotvector.generate(2, 4)

# the same 12 points taken as a 4 x 3 net (v fastest): only the sizes and the knot vectors change
s.ctrlpts_size_u = 4
s.ctrlpts_size_v = 3
s.knotvector_u = knotvector.generate(2, 4)
s.knotvector_v = knotvector.generate(2, 3)

su, sv = s.ctrlpts_size_u, s.ctrlpts_size_v
flat = s.ctrlpts
grid = s.ctrlpts2d
msgs = []
if len(grid) != su or any(len(row) != sv for row in grid):
    msgs.append("ctrlpts2d is %d x %d but the surface is %d x %d" % (len(grid), len(grid[0]), su, sv))
else:
    bad = [(i, j) for i in range(su) for j in range(sv) if list(grid[i][j]) != list(flat[j + sv * i])]
    if bad:
        msgs.append("ctrlpts2d[u][v] != ctrlpts[v + size_v * u] at %s" % bad[:3])

# corner S(u_max, v_min) is the control point (u = 3, v = 0) = flat[9]; the evaluator agrees, the 2-D view does not
corner = s.evaluate_single((1.0, 0.0))
if corner != flat[0 + sv * 3]:
    msgs.append("evaluator does not use v-fastest layout?!")
try:
    blk = operations.find_ctrlpts(s, 1.0, 0.0)   # rows u = 1..3, columns v = 0..2
    if list(blk[-1][0]) != list(corner):
        msgs.append("find_ctrlpts(1, 0)[-1][0] = %s, evaluator corner = %s" % (blk[-1][0], corner))
except Exception as e:
    msgs.append("find_ctrlpts raised %r" % (e,))
try:
    t = operations.transpose(s)
    if t.evaluate_single((0.0, 1.0)) != corner:
        msgs.append("transpose: S^T(0, 1) = %s != S(1, 0) = %s" % (t.evaluate_single((0.0, 1.0)), corner))
except Exception as e:
    msgs.append("transpose raised %r" % (e,))

if msgs:
    print("DEFECT: stale 2-D grid view after ctrlpts_size_u/v setters: " + "; ".join(msgs))
    sys.exit(1)
print("ok")
sys.exit(0)
