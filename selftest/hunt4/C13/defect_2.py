"""C13 (construction): construct_surface / construct_volume check that the sections have the same degree and the same
number of control points but not that they are defined on the same knot vector; the knot vector of the first section is
silently used for all of them, so the iso-curve of the constructed surface at section k is not section k."""
import sys
from geomdl import BSpline, construct
from geomdl.exceptions import GeomdlException

def crv(kv, z):
    c = BSpline.Curve()
    c.degree = 2
    c.ctrlpts = [[0.0, 0.0, z], [1.0, 2.0, z], [2.0, -1.0, z], [3.0, 1.0, z], [4.0, 0.0, z]]
    c.knotvector = kv
    return c

c1 = crv([0, 0, 0, 0.2, 0.4, 1, 1, 1], 0.0)
c2 = crv([0, 0, 0, 0.6, 0.8, 1, 1, 1], 1.0)   # same degree, same number of control points, other knots
worst = 0.0
for direction in ("u", "v"):
    try:
        s = construct.construct_surface(direction, c1, c2, degree=1)
    except GeomdlException:
        continue  # rejecting incompatible sections is fine
    for t in (0.1, 0.3, 0.5, 0.7, 0.9):
        p = s.evaluate_single((1.0, t) if direction == "u" else (t, 1.0))
        q = c2.evaluate_single(t)
        worst = max(worst, max(abs(a - b) for a, b in zip(p, q)))
if worst > 1e-9:
    print("DEFECT: construct_surface accepts sections with different knot vectors; boundary section deviates from "
          "the input curve by %g" % worst)
    sys.exit(1)
print("ok")
sys.exit(0)
