"""C13 (transposition, object history): a trim curve object which is shared by two surfaces of a container is swapped
once per surface by operations.transpose, i.e. twice: both surfaces are transposed but their trim is not."""
import sys
from geomdl import BSpline, operations, multi, knotvector

def surf(z):
    s = BSpline.Surface()
    s.degree_u = 1
    s.degree_v = 2
    s.set_ctrlpts([[float(i), float(j), z + 0.1 * i * j] for i in range(2) for j in range(4)], 2, 4)
    s.knotvector_u = knotvector.generate(1, 2)
    s.knotvector_v = knotvector.generate(2, 4)
    return s

trim = BSpline.Curve()
trim.degree = 1
trim.ctrlpts = [[0.1, 0.2], [0.6, 0.3], [0.4, 0.9], [0.1, 0.2]]   # (u, v) polygon
trim.knotvector = knotvector.generate(1, 4)
s1, s2 = surf(0.0), surf(5.0)
s1.add_trim(trim)
s2.add_trim(trim)            # the same hole in both faces
t = operations.transpose(multi.SurfaceContainer(s1, s2))
expected = sorted([p[1], p[0]] for p in trim.ctrlpts)   # the polygon with u and v swapped (any orientation)
msgs = []
for k, srf in enumerate(t):
    got = sorted(list(p) for p in srf.trims[0].ctrlpts)
    if got != expected:
        msgs.append("surface %d: trim control points %s" % (k, srf.trims[0].ctrlpts))
if msgs:
    print("DEFECT: shared trim curve is not transposed with the surfaces of the container: " + "; ".join(msgs))
    sys.exit(1)
print("ok")
sys.exit(0)
