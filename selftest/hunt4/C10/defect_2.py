"""rotate(..., inplace=True) which raises (angle that math.cos refuses: inf; or not a number: None / str) leaves the
object translated with its start point at the origin: the error is reported after the first of the three in-place
steps (translate to the origin - rotate - translate back) has been carried out."""
import sys, copy
from geomdl import BSpline, NURBS, operations, multi

def build():
    c = NURBS.Curve()
    c.degree = 2
    c.ctrlpts = [[1.0, 1.0, 1.0], [1.0, 2.0, 3.0], [2.0, 0.0, 1.0]]
    c.weights = [1.0, 2.0, 1.0]
    c.knotvector = [0, 0, 0, 1, 1, 1]
    c.sample_size = 4
    return c

bad = []
for angle in (float('inf'), None, "30"):
    crv = build()
    before = copy.deepcopy(crv.evalpts)
    try:
        operations.rotate(crv, angle, axis=0, inplace=True)
    except Exception as e:
        err = e
    else:
        continue    # accepted: nothing to check here
    if crv.evalpts != before:
        bad.append((angle, type(err).__name__, before[0], crv.evalpts[0]))
# the same for a container: the first element is moved, the others are not
cont = multi.CurveContainer(build(), operations.translate(build(), [5.0, 0.0, 0.0]))
before = [copy.deepcopy(e.ctrlpts) for e in cont]
try:
    operations.rotate(cont, float('inf'), inplace=True)
except Exception as e:
    if [e.ctrlpts for e in cont] != before:
        bad.append(('container/inf', type(e).__name__, before[0][0], cont[0].ctrlpts[0]))
if bad:
    print("DEFECT: rotate(inplace=True) raised and left the object moved to the origin: %d cases, e.g. angle=%r (%s): "
          "first point %s -> %s" % ((len(bad),) + bad[0]))
    sys.exit(1)
print("ok")
