"""rotate(axis=0 / axis=1) of a shape with more than 3 coordinates overwrites the 4th, 5th, ... coordinate of every
control point with the coordinate of the start point (axis=2 keeps them)."""
import math, sys
from geomdl import BSpline, NURBS, operations

def build(rational):
    c = (NURBS if rational else BSpline).Curve()
    c.degree = 2
    c.ctrlpts = [[0.0, 0.0, 0.0, 5.0], [1.0, 2.0, 3.0, 6.0], [2.0, 0.0, 1.0, 7.0], [3.0, 1.0, 0.0, 9.0]]
    if rational:
        c.weights = [1.0, 2.0, 0.5, 1.0]
    c.knotvector = [0, 0, 0, 0.5, 1, 1, 1]
    c.sample_size = 5
    return c

def expected(p, o, axis, ang):
    c, s = math.cos(math.radians(ang)), math.sin(math.radians(ang))
    q = [a - b for a, b in zip(p, o)]
    if axis == 0:
        r = [q[0], q[1] * c - q[2] * s, q[2] * c + q[1] * s] + q[3:]
    elif axis == 1:
        r = [q[0] * c - q[2] * s, q[1], q[2] * c + q[0] * s] + q[3:]   # the library's own sense for axis 1
    else:
        r = [q[0] * c - q[1] * s, q[1] * c + q[0] * s] + q[2:]
    return [a + b for a, b in zip(r, o)]

bad = []
for rational in (False, True):
    for axis in (0, 1, 2):
        crv = build(rational)
        before = [list(p) for p in crv.evalpts]
        o = crv.evaluate_single(0.0)
        rot = operations.rotate(crv, 30.0, axis=axis)
        for p, q in zip(before, rot.evalpts):
            e = expected(p, o, axis, 30.0)
            if max(abs(a - b) for a, b in zip(e, q)) > 1e-9 * 10:
                bad.append((rational, axis, e, q))
                break
if bad:
    print("DEFECT: rotate about axis 0/1 does not keep the coordinates beyond the third: %d of 6 cases, e.g. "
          "rational=%s axis=%d expected %s got %s" % ((len(bad),) + bad[0]))
    sys.exit(1)
print("ok")
