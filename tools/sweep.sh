#!/bin/sh
# usage: tools/sweep.sh <tier> <seeds...>   — runs every check for each seed, prints one line per (check, seed); evidence of the
# last run stays in evidence/ (re-run the plain quick tier afterwards before committing evidence)
tier="$1"; shift
for s in "$@"; do
  for id in C01 C02 C03 C04 C05 C06 C07 C08 C09 C10 C11 C12 C13 C14 C15 C16 C17 C18 C19 C20; do
    t0=$(date +%s)
    out="$(VERIF_SEED=$s ./check $id --tier $tier 2>&1)"; rc=$?
    t1=$(date +%s)
    echo "seed=$s $id rc=$rc $((t1-t0))s $(echo "$out" | grep -E 'VIOLATION|INCONCLUSIVE|key=' | head -3 | tr '\n' ' ' | cut -c1-300)"
  done
done
