#!/usr/bin/env python3
"""Regenerates MANIFEST.json from the property modules that exist (nvmon/props/cXX.py) — run after adding a check."""
import importlib, json, os, sys
here = os.path.dirname(os.path.dirname(os.path.abspath(__file__)))
sys.path.insert(0, here)
props = [json.loads(l) for l in open(os.path.join(here, 'properties.jsonl'))]
checks, na = [], []
for p in props:
    pid = p['id']
    path = os.path.join(here, 'nvmon', 'props', pid.lower() + '.py')
    if not os.path.exists(path):
        na.append({'property_id': pid, 'reason': 'check not built yet (in progress; see DESIGN.md section 5 for the planned monitor)'})
        continue
    m = importlib.import_module('nvmon.props.' + pid.lower())
    checks.append({
        'property_id': pid,
        'quick_cmd': './check %s --tier quick' % pid,
        'thorough_cmd': './check %s --tier thorough' % pid,
        'evidence_file': 'evidence/%s.json' % pid,
        'replay_cmd_template': './check %s --replay {path}' % pid,
        'engine': 'nvmon',
        'level_claimed': {'category': 'exploration', 'text': m.LEVEL_TEXT, 'design_ref': 'DESIGN.md section 5, %s' % pid},
        'level_note': '; '.join(m.ASSUMPTIONS),
        'technique': m.TECHNIQUE,
    })
man = {
    'version': 1,
    'setup_cmd': 'true',
    'hooks': {'guard': 'GEOMDL_VERIF', 'enable': 'none needed: monitors are attached at run time by nvmon.hooks (setattr on the imported geomdl modules/classes); the guard name is reserved, no source hooks exist',
              'baseline_off_cmd': 'cd /repo && /venv/bin/python -m pytest -ra -q -p no:cacheprovider --timeout=900 --continue-on-collection-errors',
              'source_commits': [], 'add_only': True},
    'engines': [{'name': 'nvmon', 'path': 'nvmon/', 'serves_properties': [c['property_id'] for c in checks],
                 'kind_free_text': 'runtime monitoring: the real geomdl code is driven by seeded hostile workloads while post-condition hooks and per-call oracles (exact-arithmetic reference model, shadow models of edit histories, cross-configuration differential) observe the executions'}],
    'checks': checks,
    'not_applicable': na,
    'notes': 'Exit codes: 0 held on everything observed; 1 VIOLATION (replay file written); 3 INCONCLUSIVE (a deciding monitor saw too few events). Known findings: known_findings.json.',
}
json.dump(man, open(os.path.join(here, 'MANIFEST.json'), 'w'), indent=1)
print('checks:', [c['property_id'] for c in checks], 'n/a:', len(na))
