#!/usr/bin/env python3
"""validates MANIFEST.json and every evidence/*.json against the schemas in /root/.vp (run with python3-vt: has jsonschema)"""
import glob, json, sys
import jsonschema
man = json.load(open('/verif/MANIFEST.json'))
jsonschema.validate(man, json.load(open('/root/.vp/MANIFEST.schema.json')))
es = json.load(open('/root/.vp/EVIDENCE.schema.json'))
ids = set()
for c in man['checks']:
    ids.add(c['property_id'])
    e = json.load(open('/verif/' + c['evidence_file']))
    jsonschema.validate(e, es)
    assert e['property_id'] == c['property_id']
    print(c['property_id'], e['tier'], 'evals', e['coverage']['evaluations'], 'distinct', e['coverage']['distinct_nontrivial'], e['coverage']['verdict'])
props = [json.loads(l)['id'] for l in open('/verif/properties.jsonl')]
na = set(x['property_id'] for x in man.get('not_applicable', []))
assert set(props) == ids | na, (set(props) - ids - na)
print('OK', len(ids), 'checks,', len(na), 'n/a')
