#!/bin/sh
ROOT="$(cd "$(dirname "$0")/.." && pwd)"
# re-confirms every kept seeded change and re-runs the owning check against it (quick tier); prints one line per change
for d in "$ROOT"/seeded/*/; do
  n=$(basename "$d"); p=${n%-*}; w=${n#*-}
  "$ROOT"/tools/seed_eval.py "$p" "$w" --tier "${1:-quick}" 2>&1 | head -1
done
