#!/usr/bin/env python3
"""tools/kf.py fixed|known <PROP> <key> <text> [commit]  — append an entry to known_findings.json (editing aid, never run by checks)"""
import json, subprocess, sys
status, prop, key, text = sys.argv[1:5]
commit = sys.argv[5] if len(sys.argv) > 5 else subprocess.check_output(['git', '-C', '/repo', 'rev-parse', '--short', 'HEAD']).decode().strip()
k = json.load(open('/verif/known_findings.json'))
e = {'property': prop, 'key': key, 'status': status}
if status == 'fixed':
    e['commit'] = commit
    e['what_fails'] = 'fixed: property=%s %s %s' % (prop, commit, text)
else:
    e['what_fails'] = text
k['findings'].append(e)
json.dump(k, open('/verif/known_findings.json', 'w'), indent=1)
print(e)
