#!/usr/bin/env python3
"""tools/seed_eval.py <Cxx> <A|B> [--src /tmp/wt/Cxx/_seeded/A] [--tier quick] [--extra Cyy,...]

Confirms a seeded property-breaking change (patch.diff + demo.py produced independently of /verif) on a scratch copy of /repo:
  1. demo passes on the unchanged copy, 2. patch applies, 3. the repository's own tests still pass, 4. the demo fails,
  5. runs ./check <Cxx> (and any --extra checks) with NV_REPO pointing at the patched copy and records whether it is caught.
Keeps the change as /verif/seeded/<Cxx>-<A|B>/ (patch.diff, demo.py, notes.md, meta.json). The scratch copy is removed."""
import argparse
import json
import os
import shutil
import subprocess
import sys
import tempfile

PY = '/venv/bin/python'
# the tools evaluate the tree they live in (so that a frozen copy of /verif and of /repo can be evaluated while work goes on)
VERIF_ROOT = os.path.dirname(os.path.dirname(os.path.abspath(__file__)))
SRC_REPO = os.environ.get('NV_SRC_REPO', '/repo')


def sh(cmd, cwd=None, env=None, timeout=3600):
    p = subprocess.run(cmd, cwd=cwd, env=env, shell=isinstance(cmd, str), capture_output=True, text=True, timeout=timeout)
    return p.returncode, (p.stdout + p.stderr)


def main():
    ap = argparse.ArgumentParser()
    ap.add_argument('prop')
    ap.add_argument('which')
    ap.add_argument('--src')
    ap.add_argument('--tier', default='quick')
    ap.add_argument('--extra', default='')
    ap.add_argument('--no-save', action='store_true')
    a = ap.parse_args()
    src = a.src or '/tmp/wt/%s/_seeded/%s' % (a.prop, a.which)
    dst = VERIF_ROOT + '/seeded/%s-%s' % (a.prop, a.which)
    if not os.path.exists(os.path.join(src, 'patch.diff')) and os.path.exists(os.path.join(dst, 'patch.diff')):
        src = dst
    patch = os.path.join(src, 'patch.diff')
    demo = os.path.join(src, 'demo.py')
    d = tempfile.mkdtemp(prefix='nvseed.')
    meta = {'property': a.prop, 'variant': a.which, 'source': 'independent sub-agent given only the property text and a scratch worktree'}
    try:
        sh('rsync -a --exclude .git --exclude "*.egg-info" --exclude __pycache__ --exclude _seeded %s/ %s/' % (SRC_REPO, d))
        env = dict(os.environ, PYTHONPATH=d, PYTHONDONTWRITEBYTECODE='1')
        rc0, out0 = sh([PY, demo, d], cwd=d, env=env)
        meta['demo_on_unchanged_tree'] = {'exit': rc0}
        rcp, outp = sh('patch -p1 -s < %s' % patch, cwd=d)
        meta['patch_applies'] = rcp == 0
        if rcp != 0:
            print('PATCH FAILED', outp[-500:])
        rct, outt = sh([PY, '-m', 'pytest', '-q', '-p', 'no:cacheprovider', '--ignore=tests/test_visualization.py'], cwd=d, env=env)
        meta['repo_tests_with_patch'] = outt.strip().split('\n')[-1]
        rc1, out1 = sh([PY, demo, d], cwd=d, env=env)
        meta['demo_on_patched_tree'] = {'exit': rc1, 'message': out1.strip()[-400:]}
        checks = {}
        for cid in [a.prop] + [c for c in a.extra.split(',') if c]:
            envc = dict(os.environ, NV_REPO=d)
            rcc, outc = sh(['./check', cid, '--tier', a.tier], cwd=VERIF_ROOT, env=envc)
            keys = [l.strip() for l in outc.split('\n') if l.strip().startswith('key=')]
            checks[cid] = {'tier': a.tier, 'exit': rcc, 'violation_keys': [k[:240] for k in keys[:6]]}
        meta['checks'] = checks
        meta['confirmed'] = bool(rc0 == 0 and rcp == 0 and rct == 0 and rc1 != 0)
        meta['caught_by'] = [c for c, v in checks.items() if v['exit'] == 1]
    finally:
        shutil.rmtree(d, ignore_errors=True)
    notes = os.path.join(src, 'notes.md')
    if os.path.exists(notes):
        txt = open(notes).read()
        meta['needs_to_manifest'] = txt[:1500]
    print(json.dumps({k: meta[k] for k in ('property', 'variant', 'confirmed', 'repo_tests_with_patch', 'caught_by')}, indent=None))
    for c, v in meta['checks'].items():
        print('  ', c, 'exit', v['exit'], v['violation_keys'][:3])
    # a kept change which a repair has neutralised keeps its note (and its "no longer breaking" status) across re-evaluations
    old_meta = os.path.join(dst, 'meta.json')
    if os.path.exists(old_meta):
        try:
            om = json.load(open(old_meta))
            if om.get('status_note'):
                meta['status_note'] = om['status_note']
                if om.get('confirmed') is False and not meta['caught_by']:
                    meta['confirmed_by_demo'] = meta['confirmed']
                    meta['confirmed'] = False
                    om.update(checks=meta.get('checks', {}), caught_by=meta['caught_by'], confirmed_by_demo=meta['confirmed_by_demo'])
                    if not a.no_save:
                        json.dump(om, open(old_meta, 'w'), indent=1)
        except ValueError:
            pass
    if not a.no_save and meta['confirmed']:
        os.makedirs(dst, exist_ok=True)
        for f in ('patch.diff', 'demo.py', 'notes.md'):
            if os.path.exists(os.path.join(src, f)) and os.path.abspath(src) != os.path.abspath(dst):
                shutil.copy(os.path.join(src, f), os.path.join(dst, f))
        meta['what_was_run'] = ('tools/seed_eval.py %s %s: scratch copy of /repo; demo (unchanged: exit %s); patch -p1; repo tests; demo '
                                '(patched: exit %s); ./check with NV_REPO=<copy>' % (a.prop, a.which, meta['demo_on_unchanged_tree']['exit'],
                                                                                    meta['demo_on_patched_tree']['exit']))
        with open(os.path.join(dst, 'meta.json'), 'w') as f:
            json.dump(meta, f, indent=1)
    elif not meta['confirmed']:
        print('NOT CONFIRMED:', json.dumps(meta, indent=1)[:1500])


if __name__ == '__main__':
    main()
