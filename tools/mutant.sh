#!/bin/sh
# usage: tools/mutant.sh <patch.diff> <ID> [<ID>...]   — apply the patch to a scratch copy of /repo, run the repo's own
# tests there (must stay green) and the named checks with NV_REPO pointing at the copy (must exit 1). Copy removed at exit.
patch="$(realpath "$1")"; shift
d="$(mktemp -d /tmp/nvmut.XXXXXX)"
trap 'rm -rf "$d"' EXIT
rsync -a --exclude .git --exclude '*.egg-info' --exclude __pycache__ /repo/ "$d/"
( cd "$d" && patch -p1 -s < "$patch" ) || { echo "PATCH-FAILED"; exit 2; }
if [ -z "$NV_SKIP_TESTS" ]; then
  t="$(cd "$d" && PYTHONPATH="$d" PYTHONDONTWRITEBYTECODE=1 /venv/bin/python -m pytest -q -p no:cacheprovider --continue-on-collection-errors -x --ignore=tests/test_visualization.py 2>&1 | tail -1)"
  echo "repo-tests: $t"
fi
rc_all=0
for id in "$@"; do
  out="$(cd /verif && NV_REPO="$d" ./check "$id" --tier "${NV_TIER:-quick}" 2>&1)"; rc=$?
  echo "check $id rc=$rc: $(echo "$out" | grep -E 'key=|INCONCLUSIVE|HELD' | head -3 | cut -c1-220)"
done
