#!/bin/sh
# usage: tools/mkmut.sh <name> <file-relative-to-repo> <python-expr old> <python-expr new> [count]
# creates selftest/mutants/<name>.diff replacing the first occurrence of the literal old string by new
name="$1"; file="$2"; old="$3"; new="$4"
tmp="$(mktemp -d /tmp/mkmut.XXXXXX)"
mkdir -p "$tmp/a/$(dirname "$file")" "$tmp/b/$(dirname "$file")"
cp "/repo/$file" "$tmp/a/$file"
python3 - "$tmp/a/$file" "$tmp/b/$file" "$old" "$new" <<'PY' || { rm -rf "$tmp"; exit 1; }
import sys
s=open(sys.argv[1]).read()
old=sys.argv[3].encode().decode('unicode_escape'); new=sys.argv[4].encode().decode('unicode_escape')
if old not in s:
    print("OLD STRING NOT FOUND"); sys.exit(1)
open(sys.argv[2],'w').write(s.replace(old,new,1))
PY
( cd "$tmp" && diff -u "a/$file" "b/$file" > "/verif/selftest/mutants/$name.diff" )
rm -rf "$tmp"
echo "selftest/mutants/$name.diff"
