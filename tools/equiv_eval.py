#!/usr/bin/env python3
"""tools/equiv_eval.py <name> [--src dir] [--checks C01,C02,...]

A behaviour-preserving change (patch.diff + notes.md produced independently of /verif) is applied to a scratch copy of /repo; the
repository's own tests must still pass and EVERY check (quick tier, NV_REPO=<copy>) must stay at exit 0 - any alarm is a false alarm
of the machinery. Kept under /verif/selftest/equiv/<name>/ with meta.json. The scratch copy is removed."""
import argparse
import json
import os
import shutil
import subprocess
import tempfile

PY = '/venv/bin/python'
# the tools evaluate the tree they live in (so that a frozen copy of /verif and of /repo can be evaluated while work goes on)
VERIF_ROOT = os.path.dirname(os.path.dirname(os.path.abspath(__file__)))
SRC_REPO = os.environ.get('NV_SRC_REPO', '/repo')
ALL = ['C%02d' % i for i in range(1, 21)]


def sh(cmd, cwd=None, env=None, timeout=7200):
    p = subprocess.run(cmd, cwd=cwd, env=env, shell=isinstance(cmd, str), capture_output=True, text=True, timeout=timeout)
    return p.returncode, p.stdout + p.stderr


def main():
    ap = argparse.ArgumentParser()
    ap.add_argument('name')
    ap.add_argument('--src')
    ap.add_argument('--checks', default=','.join(ALL))
    a = ap.parse_args()
    dst = VERIF_ROOT + '/selftest/equiv/%s' % a.name
    src = a.src or dst
    patch = os.path.join(src, 'patch.diff')
    d = tempfile.mkdtemp(prefix='nvequiv.')
    meta = {'name': a.name}
    try:
        sh('rsync -a --exclude .git --exclude "*.egg-info" --exclude __pycache__ --exclude _equiv %s/ %s/' % (SRC_REPO, d))
        rcp, outp = sh('patch -p1 -s < %s' % patch, cwd=d)
        meta['patch_applies'] = rcp == 0
        env = dict(os.environ, PYTHONPATH=d, PYTHONDONTWRITEBYTECODE='1')
        rct, outt = sh([PY, '-m', 'pytest', '-q', '-p', 'no:cacheprovider', '--ignore=tests/test_visualization.py'], cwd=d, env=env)
        meta['repo_tests_with_patch'] = outt.strip().split('\n')[-1]
        res = {}
        for cid in a.checks.split(','):
            rcc, outc = sh(['./check', cid, '--tier', 'quick'], cwd=VERIF_ROOT, env=dict(os.environ, NV_REPO=d))
            keys = [l.strip()[:300] for l in outc.split('\n') if l.strip().startswith('key=') or 'INCONCLUSIVE' in l]
            res[cid] = {'exit': rcc, 'keys': keys[:5]}
        meta['checks'] = res
        meta['alarms'] = sorted(c for c, v in res.items() if v['exit'] != 0)
    finally:
        shutil.rmtree(d, ignore_errors=True)
    print(json.dumps({'name': a.name, 'patch_applies': meta['patch_applies'], 'tests': meta['repo_tests_with_patch'], 'alarms': meta['alarms']}))
    for c in meta['alarms']:
        print('   ', c, meta['checks'][c])
    os.makedirs(dst, exist_ok=True)
    for f in ('patch.diff', 'notes.md'):
        if os.path.exists(os.path.join(src, f)) and os.path.abspath(src) != os.path.abspath(dst):
            shutil.copy(os.path.join(src, f), os.path.join(dst, f))
    with open(os.path.join(dst, 'meta.json'), 'w') as f:
        json.dump(meta, f, indent=1)


if __name__ == '__main__':
    main()
