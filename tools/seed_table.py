#!/usr/bin/env python3
"""prints the markdown table of the kept seeded changes (used for DESIGN.md section 7): tools/seed_table.py [--write]"""
import glob, json, os, sys
rows = []
for d in sorted(glob.glob('/verif/seeded/*/')):
    m = json.load(open(d + 'meta.json'))
    patch = open(d + 'patch.diff').read()
    files = sorted(set(l.split()[1][2:] for l in patch.split('\n') if l.startswith('+++ ')))
    keys = m.get('checks', {}).get(m['property'], {}).get('violation_keys', [])
    k = [x.split(' ')[0].replace('key=', '') for x in keys][:2]
    rows.append('| %s | %s | %s | %s |' % (os.path.basename(d.rstrip('/')), ','.join(f.replace('geomdl/', '') for f in files),
                                           ' '.join(m['caught_by']) or ('**MISSED**' if m.get('confirmed', True) else '(no longer a defect: neutralised by a fix)'), ', '.join('`%s`' % x for x in k)))
if '--write' in sys.argv:
    s = open('/verif/DESIGN.md').read()
    a = s.index('| seeded | file | caught by | first violation keys |')
    b = s.index('\n\n', a)
    s = s[:a] + '| seeded | file | caught by | first violation keys |\n|---|---|---|---|\n' + '\n'.join(rows) + s[b:]
    open('/verif/DESIGN.md', 'w').write(s)
else:
    print('\n'.join(rows))
