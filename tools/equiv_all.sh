#!/bin/sh
# runs every check (quick) against every kept behaviour-preserving change; any alarm is a false alarm of the machinery
for d in /verif/selftest/equiv/*/; do
  /verif/tools/equiv_eval.py "$(basename "$d")" 2>&1 | head -4
done
