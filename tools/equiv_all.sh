#!/bin/sh
ROOT="$(cd "$(dirname "$0")/.." && pwd)"
# runs every check (quick) against every kept behaviour-preserving change; any alarm is a false alarm of the machinery
for d in "$ROOT"/selftest/equiv/*/; do
  "$ROOT"/tools/equiv_eval.py "$(basename "$d")" 2>&1 | head -4
done
